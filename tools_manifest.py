#!/usr/bin/env python3
"""Regenerates MANIFEST.json (kept in a script so the per-property texts stay in one place)."""
import json, os, sys
HERE = os.path.dirname(os.path.abspath(__file__))

NA = {
 "C01": "Machine-code fidelity is a table-driven pure function of (mnemonic, operand forms, values): no schedule, fault, clock or history to simulate; needs enumeration against an independent decoder, which is another technique.",
 "C04": "Branch / PC-relative targets are a pure function of (instruction shape, distance); boundary enumeration, not simulation.",
 "C05": "Expression arithmetic is a pure function of the expression text; its only order sensitivity (operands defined later) is what C03 decides.",
 "C06": "Data directives are a pure function of (directive, operands, address parity, charset).",
 "C08": "Quantifies over source texts only: termination and crash-freedom of one deterministic sequential run are functions of the text; there are no faults to stop for bounded liveness. The simulator's step budget is a harness guard, not a decision procedure.",
 "C09": "Relocation law is a metamorphic relation between runs at different link bases: a configuration sweep of a pure function, no schedule.",
 "C10": "Spelling invariance is a metamorphic relation between source spellings; pure.",
 "C11": "Scoping and linking is a pure function of the file set; 'either order' means file order, which changes addresses and is not a schedule of one program.",
 "C12": "The link base is the value of an expression or an error; pure (where .link stands is only workload variation for C02).",
 "C14": "BK charset bijection: a 256-entry table; exhaustive enumeration is complete and trivial, nothing to simulate.",
 "C15": "Radix-50 packing: 64 000 triples; exhaustive enumeration, nothing to simulate.",
 "C16": "Structural directives relate two different source texts (unrolled / concatenated / inlined); the .repeat copies are compiled in a fixed order with no scheduling freedom.",
 "C17": "Diagnostic positions are a pure function of the text.",
}

CHECKS = {
 "C02": dict(
   engine="B-lazy-schedule",
   technique="deterministic simulation: invariant monitor over the recorded statement trace under seeded late-delivery fault schedules; alarms only with a concrete source witness",
   category="exploration",
   text="The real compiler runs under a hook-free trace monitor (statement, address given, chunk produced, for every block instance incl. included files and repeat bodies); after every error-free run the monitor recomputes every address from the sizes of the chunks actually produced and compares block bytes and image bytes at that address with the chunk. Runs are explored fault-free and under seeded schedules that deliver constant definitions late, which is what turns sizes/contents into 'announced now, computed later'. A monitor failure under a schedule is reported only if the really moved source fails the monitor too. Sampling, not proof.",
   design_ref="DESIGN.md 3.2, 5.2",
   note="Trusted: the monitor's arithmetic and the wrappers on Compiler.compile_block/compile_insn/compile_word_list/compile_label/compile_include. Only runs without error diagnostics are judged. '. = X' skips are observed as zero-filled gaps where the AST has such a statement."),
 "C03": dict(
   engine="B-lazy-schedule",
   technique="deterministic simulation: seeded late-delivery fault schedules at the Symbol._resolve / try_compute seam, verdict on concrete moved-source witness",
   category="exploration",
   text="Seeded search over evaluation schedules of pdpy11's 'try now, otherwise defer' protocol: constant definitions are delivered late (lookups answered NotReadyError until a chosen later statement starts), the result must equal the fault-free run; every divergence is re-established by really moving the definition text and assembling with no injection before it is reported. Sampling, not proof: covers generated programs (all operand/directive positions, chains to depth 300; one program in ten fails by construction, so that the success/failure outcome is explored too) and the 21 practice programs.",
   design_ref="DESIGN.md 3.2, 5.1",
   note="Trusted: the harness (SimFS for include/insert reads, outcome comparison); the injection is not trusted for verdicts (witness re-run). Eligible definitions: top-level constants defined once, without '.'/local labels. Diagnostics are not compared."),
 "C07": dict(
   engine="A-sim-process-world",
   technique="deterministic simulation with fault injection: real main_cli() on a simulated disk/stdio, seeded I/O fault plans + single-fault sweep, oracle over the recorded history of diagnostics, file-system events and exit status",
   category="exploration",
   text="Every run executes the shipped main_cli() in a simulated process world; the oracle is evaluated over the recorded history (diagnostics tap, create/truncate/write/close events, acknowledgements in event order, exit status): exit!=0 iff an error-severity diagnostic or fatal line was issued, failing runs touch no file, succeeding runs write and acknowledge every requested output; the same seed re-run under other -W selections and report formats must give identical exit status, files and bytes; I/O faults at every seam call (single-fault sweep) and random 1-3-fault plans must fail the run without false acknowledgement. Sampling over programs, exhaustive only per swept workload item.",
   design_ref="DESIGN.md 3.1, 4.2",
   note="Trusted: SimFS POSIX fidelity (sampled by selftest-fidelity against a real subprocess), the path model, the diagnostics tap. The 'internal compiler error' report counts as a reported failure (crash-freedom is C08). Known finding F-C07-1 (files left behind after an output-side I/O error) is listed in known_findings.txt."),
 "C13": dict(
   engine="A-sim-process-world",
   technique="deterministic simulation with fault injection: simulated disk after each real CLI run vs independent path model; write-fault plans (torn/failed writes) for 'acknowledged => complete'; containers decoded by independent readers",
   category="exploration",
   text="Decided by simulation: which files appear where (independent path model over every selector and path form) and that under injected write faults (open/write/close, torn prefixes) an acknowledged output is complete and identical to the fault-free one while an unacknowledged one is absent, stale-truncated or a prefix and the run fails. Sampled as by-product on the same runs: every container decoded by independent bin/RIFF/BK-tape (normal and turbo) readers equals the image of a pristine library assembly, incl. header, padded name and end-around-carry checksum (payloads 0-4096 bytes, sums that are multiples of 65535).",
   design_ref="DESIGN.md 3.1, 4.3",
   note="Trusted: the independent readers in sim/containers.py (written from the property statement) and the path model; the codec facet is differential sampling, not decided by fault exploration."),
 "C18": dict(
   engine="A-sim-process-world",
   technique="deterministic simulation: seeded histories of assemblies (incl. fault-, handler-, EPIPE- and RecursionError-terminated ones) in one interpreter vs pristine forked reference processes, across PYTHONHASHSEED values",
   category="exploration",
   text="A history of up to 50 operations (CLI runs and library assemblies of valid, invalid, crashing and fault-terminated programs) runs in one interpreter; each operation's observable result (outcome, base, bytes, files, structured diagnostics, positions) must equal the same operation executed alone in a child forked from a pristine interpreter, and per-run digests must agree between workers with different hash seeds. Module-global state is monitored after every operation and a broken invariant triggers the sensitive probe set, but only observable differences are reported. Histories are minimised by ddmin.",
   design_ref="DESIGN.md 3.1, 4.1",
   note="Trusted: result_key() extraction; fork() as a faithful copy of a pristine process. Message text is not compared (it contains running instance numbers)."),
 "C19": dict(
   engine="A-sim-process-world",
   technique="deterministic simulation with fault injection: the .lst file on the simulated disk after real CLI runs (when/where it is written, under write faults at each of its seam calls) + parsed content vs ledger, probe tables and markers of the same run's image",
   category="exploration",
   text="Decided by simulation: the listing is written only by succeeding runs with an output, beside the first output file, complete whenever acknowledged, and a fault at any of its open/write/close calls fails the run. Sampled as by-product: parsed listing vs generator ledger (every ordinary symbol once, per file, no locals), octal values vs '.dword S' probe tables and constant values (negative and >16-bit included), (value, name) ordering, label addresses vs markers in the image.",
   design_ref="DESIGN.md 3.1, 4.4",
   note="Trusted: generator ledger, path model (both first make_* file and -o file accepted as 'first output'; location unchecked with '-o -'), bin reader. Content facet is differential sampling."),
}

def main():
    checks = []
    for pid in sorted(CHECKS):
        c = CHECKS[pid]
        checks.append({
            "property_id": pid,
            "quick_cmd": "./check %s --tier quick" % pid,
            "thorough_cmd": "./check %s --tier thorough" % pid,
            "evidence_file": "/verif/evidence/%s.json" % pid,
            "replay_cmd_template": "./check %s --replay {path}" % pid,
            "engine": c["engine"],
            "level_claimed": {"category": c["category"], "text": c["text"], "design_ref": c["design_ref"]},
            "level_note": c["note"],
            "technique": c["technique"],
        })
    pending = [p for p in ("C02", "C07", "C13", "C18", "C19") if p not in CHECKS]
    na = [{"property_id": k, "reason": v} for k, v in sorted(NA.items())]
    for p in pending:
        na.append({"property_id": p, "reason": "simulation target (DESIGN.md 0), check under construction in this revision: not yet claimed"})
    na.sort(key=lambda x: x["property_id"])
    m = {
        "version": 1,
        "setup_cmd": "./setup.sh",
        "hooks": {
            "guard": "PDPY11_VERIF",
            "enable": "no source hooks exist: every seam is an existing module attribute (builtins.open, os.getcwd, sys.*, reports.emit_report, Symbol._resolve, Compiler.compile_*, BaseDeferred.wait) replaced at run time by /verif/sim; PDPY11_VERIF is reserved and unused",
            "baseline_off_cmd": "cd /repo && /venv/bin/python -m pytest -ra -q -p no:cacheprovider --timeout=900 --continue-on-collection-errors",
            "source_commits": [],
            "add_only": True,
        },
        "engines": [
            {"name": "A-sim-process-world", "path": "sim/world.py", "serves_properties": ["C07", "C13", "C18", "C19"],
             "kind_free_text": "in-process main_cli()/library assembly on a simulated file system, cwd, argv, stdio with seeded I/O fault plans, diagnostics tap, pristine forked reference processes"},
            {"name": "B-lazy-schedule", "path": "sim/lazysched.py", "serves_properties": ["C02", "C03"],
             "kind_free_text": "seeded perturbation of the lazy-evaluation schedule (late delivery of definitions at the Symbol._resolve seam), statement clock, concrete source witnesses"},
        ],
        "checks": checks,
        "not_applicable": na,
        "notes": "Technique family: deterministic simulation with fault injection. One integer (VERIF_SEED) decides every run; see DESIGN.md.",
    }
    with open(os.path.join(HERE, "MANIFEST.json"), "w") as f:
        json.dump(m, f, indent=1)
        f.write("\n")

if __name__ == "__main__":
    main()
