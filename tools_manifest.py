#!/usr/bin/env python3
"""Regenerates MANIFEST.json (kept in a script so the per-property texts stay in one place)."""
import json, os, sys
HERE = os.path.dirname(os.path.abspath(__file__))

NA = {
 "C01": "Machine-code fidelity is a table-driven pure function of (mnemonic, operand forms, values): no schedule, fault, clock or history to simulate; needs enumeration against an independent decoder, which is another technique.",
 "C04": "Branch / PC-relative targets are a pure function of (instruction shape, distance); boundary enumeration, not simulation.",
 "C05": "Expression arithmetic is a pure function of the expression text; its only order sensitivity (operands defined later) is what C03 decides.",
 "C06": "Data directives are a pure function of (directive, operands, address parity, charset).",
 "C08": "Quantifies over source texts only: termination and crash-freedom of one deterministic sequential run are functions of the text; there are no faults to stop for bounded liveness. The simulator's step budget is a harness guard, not a decision procedure.",
 "C09": "Relocation law is a metamorphic relation between runs at different link bases: a configuration sweep of a pure function, no schedule.",
 "C10": "Spelling invariance is a metamorphic relation between source spellings; pure.",
 "C11": "Scoping and linking is a pure function of the file set; 'either order' means file order, which changes addresses and is not a schedule of one program.",
 "C12": "The link base is the value of an expression or an error; pure (where .link stands is only workload variation for C02).",
 "C14": "BK charset bijection: a 256-entry table; exhaustive enumeration is complete and trivial, nothing to simulate.",
 "C15": "Radix-50 packing: 64 000 triples; exhaustive enumeration, nothing to simulate.",
 "C16": "Structural directives relate two different source texts (unrolled / concatenated / inlined); the .repeat copies are compiled in a fixed order with no scheduling freedom.",
 "C17": "Diagnostic positions are a pure function of the text.",
}

CHECKS = {
 "C03": dict(
   engine="B-lazy-schedule",
   technique="deterministic simulation: seeded late-delivery fault schedules at the Symbol._resolve / try_compute seam, verdict on concrete moved-source witness",
   category="exploration",
   text="Seeded search over evaluation schedules of pdpy11's 'try now, otherwise defer' protocol: constant definitions are delivered late (lookups answered NotReadyError until a chosen later statement starts), the result must equal the fault-free run; every divergence is re-established by really moving the definition text and assembling with no injection before it is reported. Sampling, not proof: covers generated programs (all operand/directive positions, chains to depth 300) and the 21 practice programs.",
   design_ref="DESIGN.md 3.2, 5.1",
   note="Trusted: the harness (SimFS for include/insert reads, outcome comparison); the injection is not trusted for verdicts (witness re-run). Eligible definitions: top-level constants defined once, without '.'/local labels. Diagnostics are not compared."),
}

def main():
    checks = []
    for pid in sorted(CHECKS):
        c = CHECKS[pid]
        checks.append({
            "property_id": pid,
            "quick_cmd": "./check %s --tier quick" % pid,
            "thorough_cmd": "./check %s --tier thorough" % pid,
            "evidence_file": "/verif/evidence/%s.json" % pid,
            "replay_cmd_template": "./check %s --replay {path}" % pid,
            "engine": c["engine"],
            "level_claimed": {"category": c["category"], "text": c["text"], "design_ref": c["design_ref"]},
            "level_note": c["note"],
            "technique": c["technique"],
        })
    pending = [p for p in ("C02", "C07", "C13", "C18", "C19") if p not in CHECKS]
    na = [{"property_id": k, "reason": v} for k, v in sorted(NA.items())]
    for p in pending:
        na.append({"property_id": p, "reason": "simulation target (DESIGN.md 0), check under construction in this revision: not yet claimed"})
    na.sort(key=lambda x: x["property_id"])
    m = {
        "version": 1,
        "setup_cmd": "./setup.sh",
        "hooks": {
            "guard": "PDPY11_VERIF",
            "enable": "no source hooks exist: every seam is an existing module attribute (builtins.open, os.getcwd, sys.*, reports.emit_report, Symbol._resolve, Compiler.compile_*, BaseDeferred.wait) replaced at run time by /verif/sim; PDPY11_VERIF is reserved and unused",
            "baseline_off_cmd": "cd /repo && /venv/bin/python -m pytest -ra -q -p no:cacheprovider --timeout=900 --continue-on-collection-errors",
            "source_commits": [],
            "add_only": True,
        },
        "engines": [
            {"name": "A-sim-process-world", "path": "sim/world.py", "serves_properties": ["C07", "C13", "C18", "C19"],
             "kind_free_text": "in-process main_cli()/library assembly on a simulated file system, cwd, argv, stdio with seeded I/O fault plans, diagnostics tap, pristine forked reference processes"},
            {"name": "B-lazy-schedule", "path": "sim/lazysched.py", "serves_properties": ["C02", "C03"],
             "kind_free_text": "seeded perturbation of the lazy-evaluation schedule (late delivery of definitions at the Symbol._resolve seam), statement clock, concrete source witnesses"},
        ],
        "checks": checks,
        "not_applicable": na,
        "notes": "Technique family: deterministic simulation with fault injection. One integer (VERIF_SEED) decides every run; see DESIGN.md.",
    }
    with open(os.path.join(HERE, "MANIFEST.json"), "w") as f:
        json.dump(m, f, indent=1)
        f.write("\n")

if __name__ == "__main__":
    main()
