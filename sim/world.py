"""Engine A: the simulated process world (file system, cwd, argv, stdio, diagnostics tap).

Everything pdpy11 can observe of its environment goes through one `World`:
`builtins.open`, `os.getcwd`, `sys.argv`, `sys.stdin/stdout/stderr` and the module
attribute `reports.emit_report` are replaced for the duration of one operation.
Every call at a seam gets a sequence number, is appended to the event log and is
looked up in the fault plan, so one fault plan = one exactly repeatable execution.
"""
import builtins
import errno
import io
import os
import sys

SIMROOT = "/sim"

# errno table for injected faults
ERRNO = {
    "ENOENT": (errno.ENOENT, FileNotFoundError),
    "EISDIR": (errno.EISDIR, IsADirectoryError),
    "EACCES": (errno.EACCES, PermissionError),
    "EIO": (errno.EIO, OSError),
    "EMFILE": (errno.EMFILE, OSError),
    "ENOSPC": (errno.ENOSPC, OSError),
    "EPIPE": (errno.EPIPE, BrokenPipeError),
    "EROFS": (errno.EROFS, OSError),
}

# which fault kinds make sense at which seam
SEAM_KINDS = {
    "open-r": ["ENOENT", "EISDIR", "EACCES", "EIO", "EMFILE"],
    "read": ["EIO", "BADUTF8"],
    "open-w": ["ENOENT", "EACCES", "EISDIR", "ENOSPC", "EMFILE", "EROFS"],
    "write": ["ENOSPC", "EIO"],
    "close-w": ["EIO", "ENOSPC"],
    "stdout": ["EPIPE"],
    "stderr": ["EPIPE"],
}

INPUT_SEAMS = ("open-r", "read")
OUTPUT_SEAMS = ("open-w", "write", "close-w")


def make_oserror(kind, path=None):
    code, cls = ERRNO[kind]
    if path is None:
        return cls(code, os.strerror(code))
    return cls(code, os.strerror(code), path)


class SimHandlerFault(Exception):
    """Raised by a library-mode report handler at its k-th report (what tests/util.py does)."""


class BudgetExceeded(BaseException):
    """The force-counter step budget of one assembly was exhausted (harness guard)."""


class _SimReadFile:
    def __init__(self, world, path, data, text, encoding):
        self.world = world
        self.name = path
        self._data = data
        self._text = text
        self._encoding = encoding or "utf-8"
        self.closed = False

    def read(self, size=-1):
        w = self.world
        kind = w.seam("read", self.name, skip=(None if self._text else ("BADUTF8",)))
        if kind == "EIO":
            w.event("fail", self.name, "read:EIO:injected")
            raise make_oserror("EIO")
        data = self._data
        if kind == "BADUTF8":
            w.event("corrupt", self.name, "BADUTF8")
            data = data[: len(data) // 2] + b"\xff\xfe\xc0" + data[len(data) // 2:]
        w.event("read", self.name, len(data))
        self._data = b""
        if not self._text:
            return data
        # same decoding path as a real text file: universal newlines, strict errors
        return io.TextIOWrapper(io.BytesIO(data), encoding=self._encoding, newline=None).read()

    def close(self):
        self.closed = True

    def __enter__(self):
        return self

    def __exit__(self, *exc):
        self.close()
        return False

    def __iter__(self):
        return iter(self.read().splitlines(True))


BUFSIZE = 8192


class _SimWriteFile:
    """POSIX-visible semantics: created/truncated at open; a buffered file (the default) hands its
    bytes to the device when the buffer fills, on flush() and on close(), so an error may only surface
    at close; an unbuffered binary file (buffering=0) writes at once and, when the device cannot take
    everything, returns a short count instead of raising; a file that is never closed is closed by
    its finalizer, where errors are swallowed (as CPython does).  A faulted device write leaves a
    prefix, a faulted close loses the tail."""

    def __init__(self, world, path, text, encoding, buffering=-1):
        self.world = world
        self.name = path
        self._text = text
        self._encoding = encoding or "utf-8"
        self.closed = False
        self._wrote = 0
        self._pos = None      # None = append at end; int = overwrite in place ('r+')
        self._unbuffered = (buffering == 0 and not text)
        self._buf = b""

    def write(self, data):
        if self.closed:
            raise ValueError("I/O operation on closed file.")
        if self._text:
            if not isinstance(data, str):
                raise TypeError("write() argument must be str, not " + type(data).__name__)
            raw = data.encode(self._encoding)
        else:
            if isinstance(data, str):
                raise TypeError("a bytes-like object is required, not 'str'")
            raw = bytes(data)
        if self._unbuffered:
            return self._device_write(raw, short_ok=True)
        self._buf += raw
        if len(self._buf) >= BUFSIZE:
            self._flush()
        return len(data)

    def _device_write(self, raw, short_ok):
        w = self.world
        kind = w.seam("write", self.name)
        if kind is not None:
            keep = int(len(raw) * w.fault_arg)
            self._put(raw[:keep])
            self._wrote += keep
            w.event("write", self.name, keep)
            w.event("fail", self.name, "write:%s:injected" % kind)
            w.torn.add(self.name)
            if short_ok and keep > 0:
                return keep          # the device took what fitted: short count, no exception (yet)
            raise make_oserror(kind)
        self._put(raw)
        self._wrote += len(raw)
        w.event("write", self.name, len(raw))
        return len(raw)

    def _flush(self):
        buf, self._buf = self._buf, b""
        if buf:
            self._device_write(buf, short_ok=False)

    def _put(self, raw):
        """Place bytes at the file position (append for 'w'/'a', overwrite in place for 'r+')."""
        w = self.world
        cur = w.files.get(self.name, b"")
        if self._pos is None:
            w.files[self.name] = cur + raw
        else:
            w.files[self.name] = cur[:self._pos] + raw + cur[self._pos + len(raw):]
            self._pos += len(raw)

    def flush(self):
        if self.closed:
            raise ValueError("I/O operation on closed file.")
        self._flush()

    def close(self):
        if self.closed:
            return
        self.closed = True       # like CPython: the file is closed even if the final flush fails
        self._flush()
        w = self.world
        kind = w.seam("close-w", self.name)
        if kind is not None:
            cur = w.files.get(self.name, b"")
            keep = int(len(cur) * w.fault_arg)
            w.files[self.name] = cur[:keep]
            w.event("fail", self.name, "close:%s:injected" % kind)
            w.torn.add(self.name)
            raise make_oserror(kind)
        w.event("close", self.name, self._wrote)
        w.closed_ok.add(self.name)

    def __enter__(self):
        return self

    def __exit__(self, *exc):
        self.close()
        return False

    def __del__(self):
        # never closed explicitly: the finalizer closes, and errors raised there are ignored
        if not self.closed:
            try:
                self.world.event("finalizer-close", self.name, None)
                self.close()
            except BaseException:  # noqa
                pass


class _SimBinStream:
    def __init__(self, stream):
        self._s = stream

    def write(self, data):
        return self._s._write_bytes(bytes(data))

    def flush(self):
        pass


class _SimStream:
    """sys.stdout / sys.stderr replacement: ordered byte log, seam for EPIPE."""

    encoding = "utf-8"
    errors = "strict"

    def __init__(self, world, name):
        self.world = world
        self.name = name
        self.chunks = []
        self.buffer = _SimBinStream(self)

    def _write_bytes(self, raw):
        w = self.world
        kind = w.seam(self.name, "<%s>" % self.name)
        if kind == "EPIPE":
            w.event("fail", "<%s>" % self.name, "EPIPE:injected")
            raise make_oserror("EPIPE")
        self.chunks.append(raw)
        if raw and raw != b"\n":
            if self.name == "stderr" and raw.startswith(b"File '") and b"' was written in format '" in raw:
                # acknowledgement line: keep its position in the event order
                try:
                    w.event("ack", raw[6:raw.rindex(b"' was written in format '")].decode("utf-8"), None)
                except (ValueError, UnicodeDecodeError):
                    pass
            else:
                w.event(self.name, "<%s>" % self.name, len(raw))
        return len(raw)

    def write(self, s):
        if not isinstance(s, str):
            raise TypeError("write() argument must be str, not " + type(s).__name__)
        self._write_bytes(s.encode("utf-8"))
        return len(s)

    def flush(self):
        pass

    def isatty(self):
        return False

    def getvalue(self):
        return b"".join(self.chunks)


class _SimStdin:
    encoding = "utf-8"

    def __init__(self, world, text):
        self.world = world
        self.text = text

    def read(self, size=-1):
        w = self.world
        kind = w.seam("read", "<stdin>")
        if kind == "EIO":
            w.event("fail", "<stdin>", "read:EIO:injected")
            raise make_oserror("EIO")
        data = (self.text or "").encode("utf-8")
        if kind == "BADUTF8":
            w.event("corrupt", "<stdin>", "BADUTF8")
            data = data[: len(data) // 2] + b"\xff\xfe\xc0" + data[len(data) // 2:]
        t, self.text = data, ""
        w.event("read", "<stdin>", len(t))
        return io.TextIOWrapper(io.BytesIO(t), encoding="utf-8", newline=None).read()

    def isatty(self):
        return False


class World:
    """One simulated machine state for one operation."""

    def __init__(self, ns, files=None, dirs=None, cwd=SIMROOT + "/w", readonly=(),
                 faults=(), stdin=None, handler_fault_at=None, force_budget=2_000_000):
        self.ns = ns
        self.files = dict(files or {})
        self.dirs = set(dirs or ())
        self.dirs.add(SIMROOT)
        self.dirs.add(cwd)
        for p in list(self.files) + list(self.dirs):
            d = os.path.dirname(p)
            while d.startswith(SIMROOT) and d not in self.dirs:
                self.dirs.add(d)
                d = os.path.dirname(d)
        self.cwd = cwd
        self.readonly = set(readonly)
        self.stdin_text = stdin
        # fault plan: {(seam, nth): (kind, arg)}
        self.plan = {}
        for f in faults:
            self.plan[(f["seam"], f["nth"])] = (f["kind"], f.get("arg", 0.5))
        self.fault_arg = 0.5
        self.handler_fault_at = handler_fault_at
        self.force_budget = force_budget
        self.forces = 0
        self.seq = 0
        self.events = []       # (seq, op, path, detail)
        self.seam_counts = {}
        self.seam_log = []     # (seam, nth, path) for every seam call: the sweep's fault sites
        self.fired = []        # (seam, nth, kind, path)
        self.natural_io = []   # (side, path, kind) I/O errors that came from the FS state itself
        self.diags = []        # (seq, severity, identifier, spans)
        self.torn = set()
        self.closed_ok = set()
        self.created = []
        self.truncated = []
        self.stdout = _SimStream(self, "stdout")
        self.stderr = _SimStream(self, "stderr")
        self.state_probe = []  # (depth, awaiting) at the moment each fault fired
        self._saved = None

    # ---- event log / seams -------------------------------------------------
    def event(self, op, path, detail=None):
        self.seq += 1
        self.events.append((self.seq, op, path, detail))

    def seam(self, seam, path, skip=None):
        n = self.seam_counts.get(seam, 0)
        self.seam_counts[seam] = n + 1
        self.seam_log.append((seam, n, path))
        hit = self.plan.get((seam, n))
        if hit is None:
            return None
        kind, arg = hit
        if skip and kind in skip:
            return None      # e.g. "not valid UTF-8" is not a fault for a binary read
        self.fault_arg = arg
        self.fired.append((seam, n, kind, path))
        d = self.ns.deferred
        self.state_probe.append((d.try_compute.depth, len(d.Awaiting.awaiting_stack)))
        return kind

    # ---- path handling ------------------------------------------------------
    def resolve(self, path):
        if not os.path.isabs(path):
            path = os.path.join(self.cwd, path)
        return os.path.normpath(path)

    def in_sim(self, path):
        return path == SIMROOT or path.startswith(SIMROOT + "/")

    # ---- the open() the program sees ---------------------------------------
    def sim_open(self, file, mode="r", buffering=-1, encoding=None, errors=None, newline=None,
                 closefd=True, opener=None):
        if not isinstance(file, (str, bytes, os.PathLike)):
            return self._real_open(file, mode, buffering, encoding, errors, newline, closefd, opener)
        path = os.fspath(file)
        if isinstance(path, bytes):
            path = path.decode()
        rpath = self.resolve(path)
        if not self.in_sim(rpath):
            if "r" in mode and "+" not in mode:
                # traceback/linecache/platform read real files; reads are harmless
                return self._real_open(file, mode, buffering, encoding, errors, newline, closefd, opener)
            # the real disk is never written: outside the simulated root everything is read-only
            self.seam("open-w", rpath)
            self.event("fail", rpath, "open-w:EACCES:natural")
            self.natural_io.append(("out", rpath, "EACCES"))
            raise make_oserror("EACCES", rpath)
        text = "b" not in mode
        if "r" in mode and "+" not in mode:
            return self._open_read(rpath, text, encoding)
        if "w" in mode:
            return self._open_write(rpath, text, encoding, "w", buffering)
        if "a" in mode:
            return self._open_write(rpath, text, encoding, "a", buffering)
        if "x" in mode:
            return self._open_write(rpath, text, encoding, "x", buffering)
        if "r" in mode and "+" in mode:
            return self._open_write(rpath, text, encoding, "r+", buffering)
        raise io.UnsupportedOperation("simulated fs: mode %r" % mode)

    def _open_read(self, path, text, encoding):
        kind = self.seam("open-r", path)
        if kind is not None:
            self.event("fail", path, "open-r:%s:injected" % kind)
            raise make_oserror(kind, path)
        if path in self.dirs:
            self.event("fail", path, "open-r:EISDIR:natural")
            self.natural_io.append(("in", path, "EISDIR"))
            raise make_oserror("EISDIR", path)
        if path not in self.files:
            self.event("fail", path, "open-r:ENOENT:natural")
            self.natural_io.append(("in", path, "ENOENT"))
            raise make_oserror("ENOENT", path)
        self.event("open-r", path)
        return _SimReadFile(self, path, self.files[path], text, encoding)

    def _open_write(self, path, text, encoding, how="w", buffering=-1):
        kind = self.seam("open-w", path)
        if kind is not None:
            self.event("fail", path, "open-w:%s:injected" % kind)
            raise make_oserror(kind, path)
        if path in self.dirs:
            self.event("fail", path, "open-w:EISDIR:natural")
            self.natural_io.append(("out", path, "EISDIR"))
            raise make_oserror("EISDIR", path)
        if os.path.dirname(path) not in self.dirs:
            self.event("fail", path, "open-w:ENOENT:natural")
            self.natural_io.append(("out", path, "ENOENT"))
            raise make_oserror("ENOENT", path)
        if path in self.readonly:
            self.event("fail", path, "open-w:EACCES:natural")
            self.natural_io.append(("out", path, "EACCES"))
            raise make_oserror("EACCES", path)
        exists = path in self.files
        if how == "x" and exists:
            self.event("fail", path, "open-w:EEXIST:natural")
            self.natural_io.append(("out", path, "EEXIST"))
            raise FileExistsError(17, "File exists", path)
        if how == "r+" and not exists:
            self.event("fail", path, "open-w:ENOENT:natural")
            self.natural_io.append(("out", path, "ENOENT"))
            raise make_oserror("ENOENT", path)
        if exists:
            # 'w' truncates; 'a' and 'r+' keep the old bytes (which is how a stale tail survives)
            self.event("truncate" if how == "w" else "open-rw", path)
            self.truncated.append(path)
        else:
            self.event("create", path)
            self.created.append(path)
        if how in ("w", "x") or not exists:
            self.files[path] = b""
        f = _SimWriteFile(self, path, text, encoding, buffering)
        if how == "r+":
            f._pos = 0
        return f

    # ---- diagnostics tap ------------------------------------------------------
    def _tap(self, priority, identifier, *reps):
        r = self.ns.reports
        if priority is r.warning:
            sev = "warning"
        elif priority is r.critical:
            sev = "critical"
        elif priority is r.error:
            sev = "error"
        else:
            sev = "other"
        spans = []
        for rep in reps:
            try:
                a, b = rep[0], rep[1]
                spans.append((a.filename, a.pos, b.pos))
            except Exception:  # malformed report tuple: record what we can
                spans.append(("?", -1, -1))
        self.seq += 1
        self.diags.append((self.seq, sev, identifier, tuple(spans)))
        self.events.append((self.seq, "diag", sev, identifier))
        return self._real_emit_report(priority, identifier, *reps)

    # ---- force counter ---------------------------------------------------------
    def _counting_wait(self):
        world = self
        real_wait = self._real_wait

        def wait(dself):
            world.forces += 1
            if world.forces > world.force_budget:
                raise BudgetExceeded()
            return real_wait(dself)
        return wait

    # ---- install / uninstall ---------------------------------------------------
    def __enter__(self):
        ns = self.ns
        self._real_open = builtins.open
        self._real_emit_report = ns.reports.emit_report
        self._real_wait = ns.deferred.BaseDeferred.wait
        self._saved = (builtins.open, os.getcwd, sys.argv, sys.stdin, sys.stdout, sys.stderr,
                       ns.reports.emit_report, ns.deferred.BaseDeferred.wait,
                       ns.devices.DEVICES.get("speaker"))
        builtins.open = self.sim_open
        os.getcwd = lambda: self.cwd
        sys.stdin = _SimStdin(self, self.stdin_text)
        sys.stdout = self.stdout
        sys.stderr = self.stderr
        ns.reports.emit_report = self._tap
        ns.deferred.BaseDeferred.wait = self._counting_wait()
        # the ~speaker device would start real audio tools: stub that only records
        ns.devices.DEVICES["speaker"] = {"wb": (["wav"], lambda data: self.event("speaker", "~speaker", len(data)))}
        return self

    def __exit__(self, *exc):
        ns = self.ns
        (builtins.open, os.getcwd, sys.argv, sys.stdin, sys.stdout, sys.stderr,
         ns.reports.emit_report, ns.deferred.BaseDeferred.wait, speaker) = self._saved
        # only the speaker entry is ours to restore: everything else in the registry is state of the
        # code under test and must survive from one operation to the next (C18)
        if speaker is not None:
            ns.devices.DEVICES["speaker"] = speaker
        else:
            ns.devices.DEVICES.pop("speaker", None)
        return False
