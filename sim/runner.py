"""Check runner: shards seeded runs over worker interpreters, aggregates, writes evidence.

    ./check <ID> [--tier quick|thorough] [--runs N] [--jobs J] [--replay FILE]

Exit status: 0 = property held on everything explored (KNOWN-FINDING lines allowed),
1 = at least one `VIOLATION property=<id> replay=<path>` line, 2 = harness error.
"""
import collections
import hashlib
import json
import os
import subprocess
import sys
import time

from . import boot

VERIF = boot.VERIF
DEFAULT_SEED = 20261003
PYTHON = sys.executable

PROPS = {
    "C02": "sim.props.c02",
    "C03": "sim.props.c03",
    "C07": "sim.props.c07",
    "C13": "sim.props.c13",
    "C18": "sim.props.c18",
    "C19": "sim.props.c19",
}

# hash seeds of the simulated "processes" (worker w gets HASHSEEDS[w % len]); 'random' = not fixed
HASHSEEDS = ["0", "1", "2", "3", "4", "5", "6", "7", "11", "101", "1001", "4242", "65535", "999999", "random", "random"]


def run_seed(seed, prop, i):
    h = hashlib.sha256(("%d:%s:%d" % (seed, prop, i)).encode()).hexdigest()
    return int(h[:15], 16)


def load_known():
    """known_findings.txt: 'finding: property=<id> key=<signature> <text>' / 'fixed: ...'."""
    path = os.path.join(VERIF, "known_findings.txt")
    known = collections.defaultdict(dict)
    if os.path.exists(path):
        for line in open(path, encoding="utf-8"):
            line = line.strip()
            if not line.startswith("finding:"):
                continue
            parts = line.split(None, 3)
            try:
                prop = parts[1].split("=", 1)[1]
                key = parts[2].split("=", 1)[1]
            except IndexError:
                continue
            known[prop][key] = parts[3] if len(parts) > 3 else ""
    return known


def jdump(obj):
    return json.dumps(obj, sort_keys=True, default=_json_default)


def _json_default(o):
    if isinstance(o, (bytes, bytearray)):
        return {"__bytes__": bytes(o).hex()}
    if isinstance(o, (set, frozenset)):
        return sorted(o)
    if isinstance(o, tuple):
        return list(o)
    return repr(o)


def unbytes(o):
    if isinstance(o, dict):
        if set(o) == {"__bytes__"}:
            return bytes.fromhex(o["__bytes__"])
        return {k: unbytes(v) for k, v in o.items()}
    if isinstance(o, list):
        return [unbytes(v) for v in o]
    return o


def main(argv=None):
    argv = list(sys.argv[1:] if argv is None else argv)
    if not argv:
        print(__doc__)
        return 2
    prop = argv.pop(0)
    tier = os.environ.get("VERIF_TIER", "quick")
    runs = None
    jobs = int(os.environ.get("VERIF_JOBS", "16"))
    replay = None
    while argv:
        a = argv.pop(0)
        if a == "--tier":
            tier = argv.pop(0)
        elif a == "--runs":
            runs = int(argv.pop(0))
        elif a == "--jobs":
            jobs = int(argv.pop(0))
        elif a == "--replay":
            replay = argv.pop(0)
        else:
            print("unknown argument", a)
            return 2
    if prop.startswith("selftest"):
        from . import selftest
        return selftest.main(prop, tier, jobs)
    if prop not in PROPS:
        print("unknown property", prop)
        return 2
    seed = int(os.environ.get("VERIF_SEED", DEFAULT_SEED))
    if replay:
        return do_replay(prop, replay)
    return do_check(prop, tier, seed, runs, jobs)


def kill_group(p):
    import signal
    try:
        os.killpg(p.pid, signal.SIGKILL)
    except (ProcessLookupError, PermissionError):
        pass


def worker_env(w):
    env = dict(os.environ)
    shift = int(os.environ.get("VERIF_HASHSEED_SHIFT", "0"))
    env["PYTHONHASHSEED"] = HASHSEEDS[(w + shift) % len(HASHSEEDS)]
    env["PYTHONDONTWRITEBYTECODE"] = "1"
    env["PYTHONPATH"] = VERIF
    env.pop("PYTHONSTARTUP", None)
    return env


def do_replay(prop, path):
    env = worker_env(0)
    p = subprocess.run([PYTHON, "-B", "-m", "sim.worker", "replay", prop, path], cwd=VERIF, env=env,
                       stdout=subprocess.PIPE, text=True)
    out = p.stdout
    viol = False
    known = load_known()
    for line in out.splitlines():
        if line.startswith("{"):
            rec = json.loads(line)
            for v in rec.get("violations", []):
                if v.get("key") in known.get(prop, {}):
                    print("KNOWN-FINDING: property=%s key=%s %s" % (prop, v["key"], v.get("what", "")))
                else:
                    viol = True
                    print("VIOLATION property=%s replay=%s" % (prop, path))
                    print("  " + v.get("what", ""))
        else:
            print(line)
    if p.returncode not in (0, 1):
        print("HARNESS-ERROR: replay worker exit %d" % p.returncode)
        return 2
    if not viol:
        print("replay: no violation reproduced")
    return 1 if viol else 0


def do_check(prop, tier, seed, runs, jobs):
    t0 = time.time()
    import importlib
    mod = importlib.import_module(PROPS[prop])
    if runs is None:
        runs = mod.RUNS[tier]
    jobs = max(1, min(jobs, runs))
    known = load_known()
    ndup = min(runs, mod.DUP.get(tier, 32) if hasattr(mod, "DUP") else 32)
    procs = []
    for w in range(jobs):
        cmd = [PYTHON, "-B", "-m", "sim.worker", "run", prop, tier, str(seed), str(w), str(jobs), str(runs), str(ndup)]
        # own session/process group per worker: stopping a worker also stops the children it forked
        procs.append(subprocess.Popen(cmd, cwd=VERIF, env=worker_env(w), stdout=subprocess.PIPE, text=True,
                                      start_new_session=True))
    results = {}
    dups = collections.defaultdict(list)
    harness_errors = []
    import selectors
    sel = selectors.DefaultSelector()
    for w, p in enumerate(procs):
        sel.register(p.stdout, selectors.EVENT_READ, w)
    open_n = len(procs)
    n_viol_runs = 0
    stopped_early = False
    limit = mod.WALL.get(tier, 3600) if hasattr(mod, "WALL") else 3600
    while open_n:
        if time.time() - t0 > limit:
            harness_errors.append("wall clock limit %ds exceeded" % limit)
            for p in procs:
                kill_group(p)
            break
        for key, _ in sel.select(timeout=1.0):
            line = key.fileobj.readline()
            if not line:
                sel.unregister(key.fileobj)
                open_n -= 1
                continue
            line = line.strip()
            if not line.startswith("{"):
                if line:
                    print("[w%d] %s" % (key.data, line))
                continue
            rec = json.loads(line)
            if "harness_error" in rec:
                harness_errors.append("run %s: %s" % (rec.get("run"), rec["harness_error"]))
                continue
            if rec.get("dup"):
                dups[rec["run"]].append((rec["hashseed"], rec["digest"]))
            else:
                results[rec["run"]] = rec
                if any(not (v.get("key") and v["key"] in known.get(prop, {})) for v in rec.get("violations", [])):
                    n_viol_runs += 1
        if n_viol_runs >= 4 and not stopped_early:
            # the verdict is already decided: do not spend the budget minimising the same failure over and over
            stopped_early = True
            for p in procs:
                kill_group(p)
            break
    for w, p in enumerate(procs):
        rc = p.wait()
        if rc != 0 and not stopped_early:
            harness_errors.append("worker %d exit %d" % (w, rc))
    if stopped_early:
        print("stopped early: violations in %d runs already decide the verdict" % n_viol_runs)
    missing = [i for i in range(runs) if i not in results]
    if missing and not harness_errors and not stopped_early:
        harness_errors.append("missing results for runs %s" % missing[:10])

    # determinism / hash-seed independence of per-run digests
    digest_mismatch = []
    for i, lst in dups.items():
        if i in results:
            for hs, dg in lst:
                if dg != results[i]["digest"]:
                    digest_mismatch.append((i, results[i]["hashseed"], hs))
    violations = []
    known_hits = collections.OrderedDict()
    for i in sorted(results):
        for v in results[i].get("violations", []):
            if v.get("key") and v["key"] in known.get(prop, {}):
                known_hits.setdefault(v["key"], []).append(i)
            else:
                violations.append((i, v))
    if digest_mismatch:
        if getattr(mod, "DIGEST_MISMATCH_IS_VIOLATION", False):
            for (i, h1, h2) in digest_mismatch[:5]:
                v = mod.digest_violation(results[i], h1, h2)
                violations.append((i, v))
        else:
            harness_errors.append("nondeterministic digests in runs %s" % digest_mismatch[:5])

    for key, idxs in known_hits.items():
        print("KNOWN-FINDING: property=%s key=%s %s (seen in %d runs, e.g. run %d)" %
              (prop, key, known[prop][key], len(idxs), idxs[0]))
    vio_paths = []
    os.makedirs(os.path.join(VERIF, "replays"), exist_ok=True)
    seen_classes = set()
    for i, v in violations:
        cls = v.get("key") or v.get("what", "")[:60]
        if cls in seen_classes and len(vio_paths) >= 3:
            continue
        seen_classes.add(cls)
        body = jdump({"property": prop, "seed": seed, "run": i, "violation": v})
        name = "%s-%d-%d-%s.json" % (prop, seed, i, hashlib.sha256(body.encode()).hexdigest()[:10])
        path = os.path.join(VERIF, "replays", name)
        with open(path, "w") as f:
            f.write(body + "\n")
        vio_paths.append(path)
        print("VIOLATION property=%s replay=%s" % (prop, path))
        print("  run=%d seed=%d: %s" % (i, seed, v.get("what", "")))
        if len(vio_paths) >= 10:
            break

    wall = time.time() - t0
    if os.environ.get("VERIF_DIGEST_DUMP"):
        with open(os.environ["VERIF_DIGEST_DUMP"], "w") as f:
            json.dump({str(i): results[i]["digest"] for i in sorted(results)}, f)
    write_evidence(prop, tier, seed, mod, results, wall, len(violations), known_hits, harness_errors, dups,
                   digest_mismatch, jobs)
    print("%s tier=%s seed=%d runs=%d violations=%d known=%d harness_errors=%d wall=%.1fs" %
          (prop, tier, seed, len(results), len(violations), len(known_hits), len(harness_errors), wall))
    if harness_errors:
        for h in harness_errors[:10]:
            print("HARNESS-ERROR: " + h)
        return 1 if violations else 2
    return 1 if violations else 0


def write_evidence(prop, tier, seed, mod, results, wall, nviol, known_hits, harness_errors, dups, mismatches, jobs):
    counters = collections.Counter()
    distinct = set()
    states = set()
    samples = []
    for i in sorted(results):
        r = results[i]
        for k, v in r.get("counters", {}).items():
            counters[k] += v
        for d in r.get("nontrivial", []):
            distinct.add(d)
        for s in r.get("states", []):
            states.add(s)
        if len(samples) < 4 and r.get("sample") is not None:
            samples.append(r["sample"])
    evals = counters.get("evaluations", len(results))
    cov = {
        "evaluations": int(evals),
        "distinct_nontrivial": len(distinct),
        "rule": mod.RULE,
        "samples": samples or [{"note": "no sample recorded"}],
        "runs": len(results),
        "runs_per_hour": int(len(results) / wall * 3600) if wall > 0 else 0,
        "evaluations_per_hour": int(evals / wall * 3600) if wall > 0 else 0,
        "distinct_outcome_states": len(states),
        "counters": {k: int(v) for k, v in sorted(counters.items())},
        "faults_fired": {k[6:]: int(v) for k, v in sorted(counters.items()) if k.startswith("fault:")},
        "reach_probes": {k[6:]: int(v) for k, v in sorted(counters.items()) if k.startswith("probe:")},
        "simulated_time": {k[4:]: int(v) for k, v in sorted(counters.items()) if k.startswith("sim:")},
        "determinism": {"runs_repeated_on_another_worker_and_hash_seed": sum(len(v) for v in dups.values()),
                        "digest_mismatches": len(mismatches)},
        "workers": jobs,
        "hash_seeds": sorted(set(HASHSEEDS[w % len(HASHSEEDS)] for w in range(jobs))),
        "components": mod.COMPONENTS,
        "known_findings_hit": {k: len(v) for k, v in known_hits.items()},
        "harness_errors": harness_errors[:10],
        "exhaustive": False,
    }
    ev = {
        "property_id": prop,
        "tier": tier,
        "seed": seed,
        "level": "exploration",
        "coverage": cov,
        "assumptions": mod.ASSUMPTIONS,
        "wall_s": round(wall, 2),
        "violations": nviol,
    }
    evdir = os.path.join(VERIF, "evidence")
    if os.environ.get("VERIF_NO_EVIDENCE"):
        return
    if os.path.abspath(boot.REPO) != "/repo":
        # sensitivity runs against a scratch copy must never overwrite the evidence of /repo
        evdir = os.environ.get("VERIF_EVIDENCE_DIR")
        if not evdir:
            return
    os.makedirs(evdir, exist_ok=True)
    with open(os.path.join(evdir, prop + ".json"), "w") as f:
        json.dump(ev, f, indent=1, sort_keys=True, default=_json_default)
        f.write("\n")


if __name__ == "__main__":
    sys.exit(main())
