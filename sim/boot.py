"""Import the code under test from $VERIF_REPO's *working tree* (default /repo).

Nothing is built or cached: python is run with -B, the package is imported
straight from the source files, so every check "rebuilds" from whatever is in
the working tree at the time it starts.
"""
import os
import sys

REPO = os.environ.get("VERIF_REPO", "/repo")
VERIF = os.path.dirname(os.path.dirname(os.path.abspath(__file__)))

_loaded = None


def load():
    """Import pdpy11 from REPO and return a namespace of its modules."""
    global _loaded
    if _loaded is not None:
        return _loaded
    sys.dont_write_bytecode = True
    if sys.path[0] != REPO:
        sys.path.insert(0, REPO)
    import pdpy11  # noqa
    if not os.path.abspath(pdpy11.__file__).startswith(os.path.abspath(REPO) + os.sep):
        raise RuntimeError(f"pdpy11 imported from {pdpy11.__file__}, expected under {REPO}")
    # bk_encoding registers the 'bk' codec as an import side effect; the CLI imports it.
    from pdpy11 import _cli, bk_encoding, compiler, deferred, devices, formats, parser, reports, types  # noqa
    from pdpy11 import metacommands, metacommand_impl, operators, insns, builtins as pbuiltins  # noqa

    class NS:
        pass
    ns = NS()
    ns.pdpy11 = pdpy11
    ns.cli = _cli
    ns.compiler = compiler
    ns.deferred = deferred
    ns.devices = devices
    ns.formats = formats
    ns.parser = parser
    ns.reports = reports
    ns.types = types
    ns.metacommands = metacommands
    ns.metacommand_impl = metacommand_impl
    ns.operators = operators
    ns.insns = insns
    ns.pbuiltins = pbuiltins
    _loaded = ns
    return ns
