"""Process plumbing: run a function in a child forked from the (pristine) caller."""
import os
import pickle
import select
import signal
import sys
import time
import traceback


class HarnessError(Exception):
    pass


class HarnessTimeout(HarnessError):
    pass


def fork_call(fn, *args, timeout=60.0):
    """Run fn(*args) in a forked child, return its (picklable) result.

    The caller's interpreter state is untouched by whatever fn does: this is how a
    'pristine process' reference is obtained cheaply (fork ~1 ms). A wall-clock overrun
    is a harness error, never a verdict.
    """
    r, w = os.pipe()
    sys.stdout.flush()
    sys.stderr.flush()
    pid = os.fork()
    if pid == 0:
        code = 0
        try:
            os.close(r)
            try:
                res = ("ok", fn(*args))
            except BaseException:  # noqa
                res = ("exc", traceback.format_exc())
            data = pickle.dumps(res, protocol=pickle.HIGHEST_PROTOCOL)
            with os.fdopen(w, "wb") as f:
                f.write(data)
        except BaseException:  # noqa
            code = 3
        finally:
            os._exit(code)
    os.close(w)
    chunks = []
    deadline = time.monotonic() + timeout
    try:
        while True:
            left = deadline - time.monotonic()
            if left <= 0:
                os.kill(pid, signal.SIGKILL)
                os.waitpid(pid, 0)
                raise HarnessTimeout("child exceeded %.0fs wall clock" % timeout)
            ready, _, _ = select.select([r], [], [], min(left, 1.0))
            if ready:
                b = os.read(r, 1 << 20)
                if not b:
                    break
                chunks.append(b)
    finally:
        os.close(r)
    os.waitpid(pid, 0)
    data = b"".join(chunks)
    if not data:
        raise HarnessError("child died without a result")
    tag, val = pickle.loads(data)
    if tag == "exc":
        raise HarnessError("exception in child:\n" + val)
    return val
