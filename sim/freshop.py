"""Run one operation in a truly fresh interpreter (not a fork) and print its result key as JSON.
Used by C18 to check that 'forked from a pristine worker' really equals 'fresh process'."""
import json
import sys

from . import boot, drivers, runner


def main():
    op = runner.unbytes(json.load(sys.stdin))
    ns = boot.load()
    from .props import c18
    obs = drivers.run_op(ns, op)
    sys.stdout.write(runner.jdump(c18.result_key(obs)))
    return 0


if __name__ == "__main__":
    sys.exit(main())
