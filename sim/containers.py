"""Independent readers for pdpy11's output containers, written from the property statement (C13),
not from formats.py / bk_wav.py: raw, bin, and the BK-0010 tape WAV (normal and turbo)."""
import struct


class DecodeError(Exception):
    pass


def bk_checksum(data):
    """BK-0010 tape checksum: 16-bit sum with end-around carry."""
    s = 0
    for b in data:
        s += b
        if s > 0xFFFF:
            s = (s & 0xFFFF) + 1
    return s


def read_raw(blob):
    return None, bytes(blob)


def read_bin(blob):
    if len(blob) < 4:
        raise DecodeError("bin file shorter than its 4-byte header")
    base, length = struct.unpack("<HH", blob[:4])
    body = blob[4:]
    if length != len(body) % 65536:
        raise DecodeError("bin header length %d but %d bytes follow" % (length, len(body)))
    return base, bytes(body)


def parse_riff(blob):
    """Well-formed 8-bit mono PCM RIFF file -> (sample_rate, samples)."""
    if len(blob) < 44:
        raise DecodeError("WAV shorter than a RIFF header")
    if blob[0:4] != b"RIFF" or blob[8:12] != b"WAVE":
        raise DecodeError("not a RIFF/WAVE file")
    riff_size = struct.unpack("<I", blob[4:8])[0]
    if riff_size != len(blob) - 8:
        raise DecodeError("RIFF size field %d != file size - 8 = %d" % (riff_size, len(blob) - 8))
    pos = 12
    fmt = None
    data = None
    while pos + 8 <= len(blob):
        cid = blob[pos:pos + 4]
        size = struct.unpack("<I", blob[pos + 4:pos + 8])[0]
        body = blob[pos + 8:pos + 8 + size]
        if len(body) != size:
            raise DecodeError("chunk %r overruns the file" % cid)
        if cid == b"fmt ":
            fmt = body
        elif cid == b"data":
            data = body
        pos += 8 + size + (size & 1)
    if fmt is None or data is None:
        raise DecodeError("missing fmt or data chunk")
    if len(fmt) < 16:
        raise DecodeError("fmt chunk too short")
    tag, channels, rate, byte_rate, align, bits = struct.unpack("<HHIIHH", fmt[:16])
    if tag != 1:
        raise DecodeError("not PCM (format tag %d)" % tag)
    if channels != 1:
        raise DecodeError("not mono (%d channels)" % channels)
    if bits != 8:
        raise DecodeError("not 8-bit (%d bits)" % bits)
    if align != 1:
        raise DecodeError("block align %d != 1" % align)
    if byte_rate != rate:
        raise DecodeError("byte rate %d != sample rate %d" % (byte_rate, rate))
    return rate, data


def pulses(samples):
    """[(high_len, low_len)] full periods; threshold 128.  The train must start high."""
    out = []
    n = len(samples)
    i = 0
    if n and samples[0] < 128:
        raise DecodeError("pulse train does not start with a high level")
    while i < n:
        j = i
        while j < n and samples[j] >= 128:
            j += 1
        k = j
        while k < n and samples[k] < 128:
            k += 1
        out.append((j - i, k - j))
        i = k
    return out


def _bits_to_bytes(bits):
    if len(bits) % 8:
        raise DecodeError("bit count %d not a multiple of 8" % len(bits))
    out = bytearray()
    for i in range(0, len(bits), 8):
        b = 0
        for k in range(8):
            b |= bits[i + k] << k       # least significant bit first
        out.append(b)
    return bytes(out)


def read_bk_wav(blob):
    """Normal-speed BK-0010 tape: pilot of short pulses, sync marker, then every bit is a short sync
    pulse followed by a data pulse (long = 1, short = 0)."""
    rate, samples = parse_riff(blob)
    ps = pulses(samples)
    # classify by period length: short ~4 samples, long ~8, marker ~16
    toks = []
    for h, l in ps:
        t = h + l
        if h == l == 2:
            toks.append("s")
        elif h == l == 4:
            toks.append("l")
        elif h == l == 8:
            toks.append("m")
        else:
            raise DecodeError("unexpected pulse shape high=%d low=%d" % (h, l))
    pos = 0

    def expect(tok, count, what):
        nonlocal pos
        for _ in range(count):
            if pos >= len(toks) or toks[pos] != tok:
                raise DecodeError("expected %s at pulse %d, got %r" % (what, pos, toks[pos:pos + 1]))
            pos += 1

    def read_bits(n, what):
        nonlocal pos
        bits = []
        for _ in range(n):
            if pos + 1 >= len(toks) or toks[pos] != "s":
                raise DecodeError("expected bit sync pulse in %s at pulse %d" % (what, pos))
            d = toks[pos + 1]
            if d == "l":
                bits.append(1)
            elif d == "s":
                bits.append(0)
            else:
                raise DecodeError("bad data pulse %r in %s" % (d, what))
            pos += 2
        return bits

    pilot = 0
    while pos < len(toks) and toks[pos] == "s":
        pos += 1
        pilot += 1
    if pilot < 1024:
        raise DecodeError("pilot tone too short (%d pulses)" % pilot)
    expect("m", 1, "sync marker")
    expect("l", 1, "marker tail")
    expect("s", 10, "gap")
    expect("m", 1, "sync marker")
    expect("l", 1, "marker tail")
    header = _bits_to_bytes(read_bits(160, "header"))
    base, length = struct.unpack("<HH", header[:4])
    name = header[4:20]
    expect("s", 10, "gap")
    expect("m", 1, "sync marker")
    expect("l", 1, "marker tail")
    data = _bits_to_bytes(read_bits(8 * length, "data"))
    cks = struct.unpack("<H", _bits_to_bytes(read_bits(16, "checksum")))[0]
    tail = 0
    while pos < len(toks) and toks[pos] == "s":
        pos += 1
        tail += 1
    if pos != len(toks):
        raise DecodeError("trailing pulses after end of file mark")
    if tail < 16:
        raise DecodeError("end-of-file tone too short (%d)" % tail)
    return {"rate": rate, "base": base, "length": length, "name": name, "data": data, "checksum": cks,
            "pilot": pilot}


def read_bk_turbo_wav(blob):
    """Turbo tape: pilot of (3,3) pulses, one long marker, then one pulse per bit: high run of 3
    samples = 1, of 1 sample = 0; blocks separated by a longer low pause."""
    rate, samples = parse_riff(blob)
    ps = pulses(samples)
    pos = 0
    pilot = 0
    while pos < len(ps) and ps[pos] == (3, 3):
        pos += 1
        pilot += 1
    if pilot < 256:
        raise DecodeError("turbo pilot too short (%d)" % pilot)
    if pos >= len(ps) or ps[pos][0] < 8 or ps[pos][1] < 8:
        raise DecodeError("turbo sync marker missing")
    pos += 1

    def read_bits(n, what):
        """n bit pulses; returns (bits, low run of the last pulse)."""
        nonlocal pos
        bits = []
        last_low = None
        for k in range(n):
            if pos >= len(ps):
                raise DecodeError("pulse train ends inside %s" % what)
            h, l = ps[pos]
            if h == 3:
                bits.append(1)
            elif h == 1:
                bits.append(0)
            else:
                raise DecodeError("bad turbo bit pulse high=%d in %s" % (h, what))
            if k < n - 1 and l != 2:
                raise DecodeError("bad turbo low run %d in %s bit %d" % (l, what, k))
            last_low = l
            pos += 1
        return bits, last_low

    bits, low = read_bits(160, "header")
    header = _bits_to_bytes(bits)
    base, length = struct.unpack("<HH", header[:4])
    name = header[4:20]
    if length:
        if low != 2 + 4:
            raise DecodeError("pause after turbo header malformed (low run %d)" % low)
        bits, low = read_bits(8 * length, "data")
        data = _bits_to_bytes(bits)
        if low != 2 + 4:
            raise DecodeError("pause after turbo data malformed (low run %d)" % low)
    else:
        data = b""
        if low != 2 + 4 + 4:
            raise DecodeError("pauses around empty turbo data block malformed (low run %d)" % low)
    bits, low = read_bits(16, "checksum")
    if low != 2:
        raise DecodeError("low run after turbo checksum malformed (%d)" % low)
    cks = struct.unpack("<H", _bits_to_bytes(bits))[0]
    tail = ps[pos:]
    if tail != [(3, 3), (3, 3)]:
        raise DecodeError("turbo end mark malformed: %r" % (tail[:4],))
    return {"rate": rate, "base": base, "length": length, "name": name, "data": data, "checksum": cks,
            "pilot": pilot}
