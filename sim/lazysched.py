"""Engine B: perturbing the lazy-evaluation schedule.

Fault = "definition delivered late".  For a constant definition `S = expr` of file F the schedule
holds a delivery position P (a character offset in F's text at which some top-level statement
starts, or len(text)).  Every lookup of S issued under `try_compute` before the first top-level
statement of F with start offset >= P has been taken up by `compile_block` is answered with the
protocol's own retryable `NotReadyError` instead of being looked up.  For the code under test this
is what it would see if the definition text stood at P.

Seams used (no source change): `Compiler.compile_file` (to install a ticking statement list for
the duration of the call) and `types.Symbol._resolve`.
"""
import bisect


class _TickList(list):
    """list subclass whose iterator advances the statement clock as it yields each statement."""
    __slots__ = ("_inj", "_file")

    def __iter__(self):
        inj, file = self._inj, self._file
        for insn in list.__iter__(self):
            inj.tick(file, insn)
            yield insn


class Injection:
    def __init__(self, ns, schedule, record_trace=False):
        """schedule: {lower-cased symbol name: (file path, delivery offset P)}"""
        self.ns = ns
        self.schedule = dict(schedule or {})
        self.clock = {}          # file path -> start offset of the top-level statement being compiled
        self.done = set()        # files whose compile_block has returned
        self.active = []         # stack of files being compiled
        self.ticks = 0
        self.refused = 0
        self.refused_names = {}
        self.answered_after_refusal = set()
        self.lookups = 0
        self.compiled_count = {}

    # -- clock ---------------------------------------------------------------------
    def tick(self, file, insn):
        self.ticks += 1
        try:
            self.clock[file] = insn.ctx_start.pos
        except AttributeError:
            pass

    def delivered(self, name):
        file, pos = self.schedule[name]
        if file in self.done:
            return True
        cur = self.clock.get(file)
        if cur is None:
            return False
        return cur >= pos

    # -- install ----------------------------------------------------------------------
    def __enter__(self):
        ns = self.ns
        inj = self
        Compiler = ns.compiler.Compiler
        Symbol = ns.types.Symbol
        deferred = ns.deferred
        self._saved = (Compiler.compile_file, Symbol._resolve)
        real_compile_file = Compiler.compile_file
        real_resolve = Symbol._resolve

        def compile_file(cself, file, start, link_base):
            path = file.filename
            inj.compiled_count[path] = inj.compiled_count.get(path, 0) + 1
            body = file.body
            orig = body.insns
            tl = _TickList(orig)
            tl._inj, tl._file = inj, path
            body.insns = tl
            inj.done.discard(path)
            inj.clock.pop(path, None)
            try:
                return real_compile_file(cself, file, start, link_base)
            finally:
                body.insns = orig
                inj.done.add(path)

        def _resolve(sself, state):
            if deferred.try_compute.depth > 0:
                nm = sself.name.lower()
                if nm in inj.schedule:
                    inj.lookups += 1
                    if not inj.delivered(nm):
                        inj.refused += 1
                        inj.refused_names[nm] = inj.refused_names.get(nm, 0) + 1
                        raise deferred.NotReadyError()
                    if nm in inj.refused_names:
                        inj.answered_after_refusal.add(nm)
            elif sself.name.lower() in inj.refused_names:
                inj.answered_after_refusal.add(sself.name.lower())
            return real_resolve(sself, state)

        Compiler.compile_file = compile_file
        Symbol._resolve = _resolve
        return self

    def __exit__(self, *exc):
        ns = self.ns
        ns.compiler.Compiler.compile_file, ns.types.Symbol._resolve = self._saved
        return False

    def stats(self):
        return {
            "ticks": self.ticks,
            "lookups": self.lookups,
            "refused": self.refused,
            "refused_names": len(self.refused_names),
            "refused_then_answered": len(self.answered_after_refusal),
        }


# ------------------------------------------------------------------------------------------
# witness construction: really move the definition text
# ------------------------------------------------------------------------------------------

def apply_moves(text, moves):
    """moves: list of (a, b, P): cut text[a:b] (a definition) and re-insert it, on a line of its own,
    at offset P (P >= b, the start of a top-level statement or len(text)).  Several definitions
    delivered at the same P keep their original relative order.  Returns the new text."""
    cutmap = {}
    inserts = {}
    for a, b, p in sorted(moves):
        assert p >= b, (a, b, p)
        cutmap[a] = max(b, cutmap.get(a, b))
        inserts.setdefault(p, []).append(text[a:b].strip("\n"))
    out = []
    pos = 0
    for m in sorted(set(cutmap) | set(inserts)):
        if m > pos:
            out.append(text[pos:m])
            pos = m
        if m in inserts:
            cur = "".join(out)
            if cur and not cur.endswith("\n"):
                out.append("\n")
            for d in inserts[m]:
                out.append(d + "\n")
        if m in cutmap:
            pos = max(pos, cutmap[m])
    out.append(text[pos:])
    return "".join(out)


def statement_starts(ns, path, text):
    """Start offsets of the top-level statements of `text` as pdpy11's own parser sees them, the
    offset of a terminating '.end' (or None), and the Assignment tokens (name, a, b, expr_tokens)."""
    collected = []

    def handler(priority, identifier, *reps):
        collected.append(identifier)

    reports = ns.reports
    try:
        with reports.handle_reports(handler):
            ast = ns.parser.parse(path, text)
    except reports.UnrecoverableError:
        return None
    insns = ast.body.insns
    starts = [i.ctx_start.pos for i in insns]
    end_pos = None
    T = ns.types
    for i in insns:
        if isinstance(i, T.Instruction) and i.name.name.lower() in (".end", "end"):
            end_pos = i.ctx_start.pos
            break
    return insns, starts, end_pos


def expr_symbols(ns, tok, out, flags):
    """Collect symbol names used by an expression token tree; flag '.' and local labels."""
    T = ns.types
    O = ns.operators
    if isinstance(tok, T.InstructionPointer):
        flags.add("dot")
    elif isinstance(tok, T.Symbol):
        out.add(tok.name.lower())
        if tok.name[:1].isdigit():
            flags.add("local")
    elif isinstance(tok, T.Number):
        if getattr(tok, "is_valid_label", False) and False:
            flags.add("maybe-local")
    elif isinstance(tok, O.InfixOperator):
        expr_symbols(ns, tok.lhs, out, flags)
        expr_symbols(ns, tok.rhs, out, flags)
    elif isinstance(tok, O.UnaryOperator):
        expr_symbols(ns, tok.operand, out, flags)
    elif isinstance(tok, T.ParenthesizedExpression):
        expr_symbols(ns, tok.expr, out, flags)
    elif isinstance(tok, T.AngleBracketedChar):
        expr_symbols(ns, tok.expr, out, flags)
    elif isinstance(tok, T.StringConcatenation):
        for c in tok.chunks:
            expr_symbols(ns, c, out, flags)
    elif isinstance(tok, (T.QuotedString, T.CharLiteral)):
        pass
    else:
        flags.add("unknown:" + type(tok).__name__)
