"""C07 - errors fail the build; warnings never change it (Engine A, DESIGN 4.2)."""
import hashlib
import random

from .. import cliwork, drivers, procs
from ..minimize import ddmin, shrink_each
from ..runner import jdump
from ..world import SEAM_KINDS, INPUT_SEAMS, OUTPUT_SEAMS

RUNS = {"quick": 1000, "thorough": 20000}
DUP = {"quick": 32, "thorough": 256}
WALL = {"quick": 1500, "thorough": 6 * 3600}
RUN_TIMEOUT = {"quick": 600, "thorough": 900}

RULE = ("Each run = one generated program (1-3 linked files, includes, inserted blobs, 0-3 planted program "
        "faults from a catalogue of 66 error/critical kinds and 20 warning kinds, random output selectors "
        "and argv) executed by the real main_cli() on a simulated disk with stale copies of every output; "
        "(1) fault-free oracle exit!=0 <=> error/critical diagnostic (diagnostics tap) or fatal line, no FS "
        "mutation on failure, all outputs written+acknowledged on success; (2) re-run under 3-5 other "
        "(-W selection, report format) configurations: exit status, files written and image bytes identical; "
        "(3,4) seeded 1-3-fault I/O plans and, for a share of runs, the exhaustive single-fault sweep over "
        "every seam call of the fault-free run. distinct_nontrivial = distinct (program, argv, fired-fault "
        "set) digests with at least one diagnostic issued or one output requested.")
COMPONENTS = {
    "real": ["pdpy11._cli.main_cli incl. argparse", "pdpy11.reports (both handlers, FilterHandler)",
             "pdpy11.parser", "pdpy11.compiler", "pdpy11.formats", "pdpy11.bk_wav", "pdpy11.devices.open_device"],
    "stubbed": ["file system (SimFS dict with POSIX-visible create/truncate/write/close semantics)", "cwd",
                "sys.argv", "stdin/stdout/stderr", "~speaker device"],
    "tapped": ["reports.emit_report (records severity/identifier/spans before delegating)"],
}
ASSUMPTIONS = [
    "argv is well-formed and the charset is one Python knows, so argparse's exit 2 and the 'encoding is "
    "unsupported' exit are outside the workload",
    "main_cli's own fatal lines ('Could not read source file', 'is not in UTF-8', 'Could not write to') count "
    "as error-severity diagnostics for the iff",
    "after an output-side I/O error the literal clause 'a failing run creates no file' is relaxed to the "
    "known finding F-C07-1 (keys in known_findings.txt); everything else stays strict",
    "SimFS fidelity to the real file system is sampled by selftest-fidelity",
]


def _digest(obj):
    return hashlib.sha256(jdump(obj).encode()).hexdigest()[:16]


def run(ns, op, timeout=120):
    return procs.fork_call(drivers.run_cli, ns, op, timeout=timeout)


# ---------------------------------------------------------------------------------------------
# oracle
# ---------------------------------------------------------------------------------------------
BARE_ERROR_RE = __import__("re").compile(rb"^[^\n]*:\d+:\d+: Error: ", __import__("re").M)
SHOWN_ERR_RE = __import__("re").compile(r"\x1b\[91mError\x1b\[0m in \x1b\[96m[^\x1b]*\x1b\[0m: \x1b\[38;5;208m\[-W([a-z0-9-]+)\]")
MUT_OPS = ("create", "truncate", "open-rw", "write", "close")


def io_failures(obs):
    ins, outs = [], []
    for (_seq, op, path, detail) in obs["events"]:
        if op == "fail" and isinstance(detail, str):
            if detail.startswith(("open-r", "read")):
                ins.append((path, detail))
            elif detail.startswith(("open-w", "write", "close")):
                outs.append((path, detail))
    return ins, outs


def mutations(obs):
    return [(seq, op, path) for (seq, op, path, _d) in obs["events"] if op in MUT_OPS]


def summary(obs):
    errs = [d for d in obs["diags"] if d[0] in ("error", "critical")]
    return {
        "status": obs["status"],
        "errors": sorted(set(d[1] for d in errs)),
        "warnings": sorted(set(d[1] for d in obs["diags"] if d[0] == "warning")),
        "fatals": len(obs["fatals"]),
        "acks": obs["acks"],
        "changed": sorted(obs["changed"]),
    }


def check_basic(obs, case, ref_obs=None):
    """Rules 1, 3, 4 of DESIGN 4.2 on one run.  Returns list of (key, what)."""
    v = []
    st = obs["status"]
    errs = [d for d in obs["diags"] if d[0] in ("error", "critical")]
    fatals = obs["fatals"]
    ins, outs_f = io_failures(obs)
    muts = mutations(obs)
    outs = case["outs"]
    if st == "BUDGET":
        return [("INCONCLUSIVE", "step budget exhausted")]
    # The catch-all "unexpected internal compiler error" report is a *reported failure* (stderr text,
    # exit 1): for the iff it counts like main_cli's other fatal lines.  Whether an input may crash
    # the assembler at all is C08's question, not C07's (DESIGN 4.2, 8.3).
    if obs["internal_error"]:
        fatals = list(fatals) + ["internal compiler error: %s" % obs["exc_site"]]
    if st not in (0, 1):
        v.append(("abnormal-exit:%s" % (st,), "exit status %r (expected 0 or 1)" % (st,)))
        return v
    if st == 0 and (errs or fatals):
        v.append(("success-despite-error:" + (errs[0][1] if errs else "fatal"),
                  "exit status 0 although error-severity diagnostic(s) %s were issued" % sorted(set(e[1] for e in errs))[:3]))
    if st != 0 and not errs and not fatals:
        v.append(("failure-without-diagnostic", "exit status %r but no error-severity diagnostic and no fatal line" % st))
    if st != 0 and errs and not fatals and not outs_f and not ins:
        # the diagnostic must also reach the user: the selected handler has to SHOW an error-severity
        # report (warning selection may hide warnings only)
        shown = obs["stderr"].count("\x1b[91mError\x1b[0m in ") + len(BARE_ERROR_RE.findall(obs["stdout"]))
        if shown == 0:
            v.append(("failure-without-visible-diagnostic",
                      "exit status %r and error diagnostic(s) %s were issued internally, but no error-severity diagnostic was shown "
                      "on stdout/stderr" % (st, sorted(set(e[1] for e in errs))[:3])))
    if ins and st == 0:
        v.append(("input-io-error-swallowed", "an input-side I/O error %s occurred but the run reports success" % (ins[0],)))
    if outs_f and st == 0:
        v.append(("output-io-error-swallowed", "an output-side I/O error %s occurred but the run reports success" % (outs_f[0],)))
    expected_paths = [o["path"] for o in outs if o["path"] != "-"]
    lst_cands = [c for c in case["listing"] if c]
    lst_free = any(c is None for c in case["listing"])      # '-o -' / '-o -.ext': location left unchecked
    if lst_free:
        lst_cands += sorted(p for p in obs["fs_after"] if p.endswith(".lst") and p in obs["changed"])
    if st != 0:
        if muts:
            if not outs_f:
                v.append(("failing-run-mutates-fs", "failing run (no output-side I/O error) %s" % (muts[0],)))
            else:
                v.extend(check_f1(obs, case, muts, outs_f))
        img = cliwork.strip_bare_diag_prefix(obs["stdout"])
        if img:
            lst_failed = outs_f and all(p.endswith(".lst") for p, _d in outs_f) and any(o["path"] == "-" for o in outs)
            if lst_failed:
                v.append(("F1:output-io-error-after-other-outputs@--lst",
                          "exit 1 because the listing could not be written, after the image had gone to stdout"))
            else:
                v.append(("failing-run-writes-stdout", "failing run wrote %d non-diagnostic bytes to stdout" % len(img)))
    else:
        # success: every requested output present, closed and acknowledged; nothing else touched
        acked = [a[0] for a in obs["acks"]]
        for o in outs:
            if o["path"] == "-":
                continue
            if o["path"] not in obs["closed_ok"] or o["path"] not in obs["fs_after"]:
                v.append(("success-without-output", "exit 0 but requested output %s (%s) was not written" % (o["path"], o["origin"])))
            elif not any(_same_path(a, o["path"], case) for a in acked):
                v.append(("output-not-acknowledged", "output %s written but not acknowledged on stderr" % o["path"]))
        if case["info"].get("lst") and outs and lst_cands:
            written = [c for c in lst_cands if c in obs["closed_ok"]]
            if not written:
                v.append(("success-without-listing", "exit 0, --lst and an output requested, but no listing among %s" % lst_cands[:2]))
        allowed = set(expected_paths) | set(lst_cands)
        for (_s, op, path) in muts:
            if path not in allowed:
                v.append(("unrequested-file-written", "run wrote %s which no option or directive names" % path))
                break
    # acknowledged => complete: in event order, the last open-for-write of the path before the
    # acknowledgement must have been closed successfully, with nothing failing in between
    state = {}
    multi = set()
    for (_seq, op_, path, detail) in obs["events"]:
        if op_ in ("create", "truncate", "open-rw"):
            if path in state:
                multi.add(path)
            state[path] = "open"
        elif op_ == "close":
            state[path] = "closed"
        elif op_ == "fail" and isinstance(detail, str) and detail.startswith(("write", "close")):
            state[path] = "failed"
        elif op_ == "ack":
            full = _abs(path, case)
            if state.get(full) != "closed":
                v.append(("ack-of-incomplete-file", "'%s' acknowledged as written but its write/close had not succeeded (%s)" % (path, state.get(full))))
            state[full] = "acked"
    # ... and, under faults, identical to the fault-free content (paths written once only)
    if ref_obs is not None and ref_obs["status"] == 0:
        # a path that several outputs name (e.g. make_raw's default path and another directive) is
        # written more than once in the fault-free run: its final content there is the last writer's
        seen_paths = set()
        for o in outs:
            if o["path"] in seen_paths:
                multi.add(o["path"])
            seen_paths.add(o["path"])
        for apath, _fmt in obs["acks"]:
            full = _abs(apath, case)
            if full in multi or full in obs["torn"]:
                continue
            if full in ref_obs["fs_after"] and obs["fs_after"].get(full) != ref_obs["fs_after"][full]:
                v.append(("ack-of-wrong-content", "'%s' acknowledged but differs from the fault-free content" % apath))
    for t in obs["torn"]:
        if not any(t == p for p, _d in outs_f):
            v.append(("torn-file-elsewhere", "torn file %s at a path whose write was not faulted" % t))
    return v


def _abs(p, case):
    import os
    return os.path.normpath(os.path.join(case["op"]["cwd"], p))


def _same_path(a, b, case):
    return _abs(a, case) == b


def check_f1(obs, case, muts, outs_f):
    """Failing run with an output-side I/O error that nevertheless touched files: either the known
    finding F-C07-1 (requested outputs written in order, nothing written after the failure was known
    to main_cli) or a violation."""
    v = []
    outs = case["outs"]
    make_paths = [o["path"] for o in outs if o["origin"] != "-o" and o["path"] != "-"]
    o_path = [o["path"] for o in outs if o["origin"] == "-o" and o["path"] != "-"]
    lst = [c for c in case["listing"] if c]
    if any(c is None for c in case["listing"]):
        lst += sorted(p for p in obs["fs_after"] if p.endswith(".lst") and p in obs["changed"])
        lst += [p for p, _d in outs_f if p.endswith(".lst")]
    allowed = set(make_paths) | set(o_path) | set(lst)
    failed_paths = [p for p, _d in outs_f]
    opened = []
    for (_s, op, path) in muts:
        if op in ("create", "truncate", "open-rw") and path not in opened:
            opened.append(path)
    for p in opened:
        if p not in allowed:
            v.append(("failing-run-writes-unrequested-file", "failing run wrote %s which no option names" % p))
            return v
    make_failed = any(p in make_paths for p in failed_paths)
    o_failed = any(p in o_path for p in failed_paths)
    if make_failed and any(p in o_path or p in lst for p in opened if p not in make_paths):
        v.append(("write-after-known-failure", "-o/listing written although a make_* output had already failed"))
        return v
    if o_failed and any(p in lst for p in opened if p not in o_path and p not in make_paths):
        v.append(("write-after-known-failure", "listing written although the -o output had already failed"))
        return v
    first_fail = failed_paths[0]
    site = "emit_files" if first_fail in make_paths else ("-o" if first_fail in o_path else "--lst")
    others = [p for p in opened if p not in failed_paths]
    if others:
        v.append(("F1:output-io-error-after-other-outputs@" + site,
                  "exit 1 (write of %s failed) but %d other requested output(s) had been/were still written" % (first_fail, len(others))))
    else:
        v.append(("F1:faulted-output-left-behind@" + site,
                  "exit 1 and the output whose write failed (%s) is left created/truncated/torn" % first_fail))
    return v


def check_variant(obs0, obsv, fmt):
    """Rule 2: configuration invariance."""
    v = []
    if obs0["status"] != obsv["status"]:
        v.append(("config-changes-exit", "exit %r under the original options, %r under other -W/report-format" %
                  (obs0["status"], obsv["status"])))
    if obs0["changed"] != obsv["changed"]:
        a, b = set(obs0["changed"]), set(obsv["changed"])
        if a != b:
            v.append(("config-changes-files", "set of files written differs between configurations: %s" % sorted(a ^ b)[:3]))
        else:
            v.append(("config-changes-bytes", "bytes of %s differ between configurations" %
                      [p for p in a if obs0["changed"][p] != obsv["changed"][p]][:2]))
    if cliwork.strip_bare_diag_prefix(obs0["stdout"]) != cliwork.strip_bare_diag_prefix(obsv["stdout"]):
        v.append(("config-changes-stdout-image", "image bytes on stdout differ between configurations"))
    # error-severity diagnostics SHOWN by the graphical handler (identifier list) must not depend on -W
    sh0 = sorted(SHOWN_ERR_RE.findall(obs0["stderr"]))
    sh1 = sorted(SHOWN_ERR_RE.findall(obsv["stderr"]))
    if "\x1b[" in obs0["stderr"] and "\x1b[" in obsv["stderr"] and sh0 != sh1 and not obs0["internal_error"] and not obsv["internal_error"]:
        v.append(("config-changes-shown-errors", "error diagnostics shown differ between -W selections: %s vs %s" % (sh0[:4], sh1[:4])))
    e0 = sorted(set(d[1] for d in obs0["diags"] if d[0] != "warning"))
    e1 = sorted(set(d[1] for d in obsv["diags"] if d[0] != "warning"))
    if e0 != e1:
        v.append(("config-changes-errors", "error diagnostics differ between configurations: %s vs %s" % (e0[:3], e1[:3])))
    return v


# ---------------------------------------------------------------------------------------------
# run
# ---------------------------------------------------------------------------------------------

def fault_sites(obs):
    sites = []
    for (seam, n, path) in obs["seam_log"]:
        if seam in INPUT_SEAMS or seam in OUTPUT_SEAMS:
            for kind in SEAM_KINDS[seam]:
                sites.append({"seam": seam, "nth": n, "kind": kind})
    return sites


def run_one(ns, i, seed_i, tier):
    rng = random.Random(seed_i)
    profile = {}
    k = rng.random()
    if k < 0.3:
        profile = {"n_stmts": (2, 12), "n_consts": (0, 4), "include": 0.2, "insert": 0.2}
    case = cliwork.make_cli_case(rng, profile)
    op = case["op"]
    counters = {"evaluations": 0, "programs": 1, "variants": 0, "fault_runs": 0, "sweeps": 0,
                "sim:io_events": 0, "sim:forces": 0, "inconclusive_budget": 0}
    violations = []
    log = []
    states = set()
    nontrivial = []

    def account(obs, tag):
        counters["evaluations"] += 1
        counters["sim:io_events"] += len(obs["events"])
        counters["sim:forces"] += obs["forces"]
        for (seam, n, kind, path) in obs["fired"]:
            counters["fault:%s:%s" % (seam, kind)] = counters.get("fault:%s:%s" % (seam, kind), 0) + 1
        for (side, path, kind) in obs["natural_io"]:
            counters["fault:natural-%s:%s" % (side, kind)] = counters.get("fault:natural-%s:%s" % (side, kind), 0) + 1
        s = summary(obs)
        log.append((tag, s["status"], s["errors"], s["fatals"], s["changed"], _digest(obs["fs_after"]), _digest(obs["stdout"])))
        sev = "crit" if any(d[0] == "critical" for d in obs["diags"]) else ("err" if s["errors"] else ("warn" if s["warnings"] else "clean"))
        states.add("%s|%s|%s|%s" % (tag.split(":")[0], s["status"], sev, ",".join(sorted(set(f[2] for f in obs["fired"])))))
        return s

    def record(vs, obs, the_op, how, base=None):
        for key, what in vs:
            if key == "INCONCLUSIVE":
                counters["inconclusive_budget"] += 1
                continue
            violations.append({"key": key, "what": what + " [" + how + "]", "kind": "C07", "op": the_op,
                               "op_base": base,
                               "case": {"outs": case["outs"], "listing": case["listing"], "info": case["info"]},
                               "planted": case["prog"].planted})

    obs0 = run(ns, op)
    s0 = account(obs0, "base")
    record(check_basic(obs0, case), obs0, op, "fault-free configuration")
    pd = _digest((sorted(op["files"].items()), op["argv"]))
    if obs0["diags"] or case["outs"]:
        nontrivial.append(_digest((pd, ())))
    for p in ("errors", "warnings"):
        pass
    counters["probe:exit0"] = int(obs0["status"] == 0)
    counters["probe:exit1"] = int(obs0["status"] == 1)
    counters["probe:critical_diag"] = int(any(d[0] == "critical" for d in obs0["diags"]))
    counters["probe:error_diag"] = int(any(d[0] == "error" for d in obs0["diags"]))
    counters["probe:warning_only_success"] = int(obs0["status"] == 0 and any(d[0] == "warning" for d in obs0["diags"]))
    counters["probe:fatal_line"] = int(bool(obs0["fatals"]))
    counters["probe:internal_error_reported"] = int(obs0["internal_error"])
    counters["probe:natural_output_io_error"] = int(any(s == "out" for s, _p, _k in obs0["natural_io"]))
    counters["probe:stdout_image"] = int(any(o["path"] == "-" for o in case["outs"]) and obs0["status"] == 0)
    counters["probe:multiple_outputs"] = int(len(case["outs"]) >= 2)
    counters["probe:stale_output_overwritten"] = int(bool(obs0["truncated"]))

    # programs that are expensive for pdpy11 itself (DESIGN 12.4) get fewer repetitions
    expensive = obs0["forces"] > 40_000
    counters["probe:expensive_program_limited"] = int(expensive)
    # rule 2: configuration invariance
    if not violations:
        for _ in range(rng.randint(3, 5) if not expensive else 1):
            argv2, fmt = cliwork.variant_argv(op["argv"], case["info"], rng, issued=set(d[1] for d in obs0["diags"]))
            op2 = dict(op, argv=argv2)
            obsv = run(ns, op2)
            account(obsv, "variant")
            counters["variants"] += 1
            vs = check_variant(obs0, obsv, fmt) + check_basic(obsv, case)
            if vs:
                record(vs, obsv, op2, "configuration variant of argv %s" % op["argv"], base=op)
                break

    # rules 3/4: fault-injecting configurations (separate run set)
    sites = fault_sites(obs0)
    if sites and not violations:
        plans = []
        for _ in range(rng.randint(1, 3)):
            plan = []
            for f in rng.sample(sites, min(len(sites), rng.choice([1, 1, 2, 3]))):
                plan.append(dict(f, arg=rng.choice([0.0, 0.3, 0.5, 0.9, 1.0])))
            plans.append(plan)
        sweep = rng.random() < (0.12 if tier == "quick" else 0.3) and len(sites) <= 120 and not expensive
        if expensive:
            plans = plans[:1]
        if sweep:
            counters["sweeps"] += 1
            plans += [[dict(f, arg=0.5)] for f in sites]
        for plan in plans:
            opf = dict(op, faults=plan)
            obsf = run(ns, opf)
            account(obsf, "fault")
            counters["fault_runs"] += 1
            if obsf["fired"]:
                nontrivial.append(_digest((pd, sorted((f[0], f[1], f[2]) for f in obsf["fired"]))))
                if any(sp[0] > 0 or sp[1] > 0 for sp in obsf["state_probe"]):
                    counters["probe:fault_inside_deferred_evaluation"] = counters.get("probe:fault_inside_deferred_evaluation", 0) + 1
            if obsf["torn"]:
                counters["probe:torn_file_left"] = counters.get("probe:torn_file_left", 0) + 1
            vs = check_basic(obsf, case, ref_obs=obs0)
            if vs:
                record(vs, obsf, opf, "I/O fault plan %s" % [(f["seam"], f["nth"], f["kind"]) for f in plan])
                if any(not key.startswith("F1:") for key, _w in vs):
                    break

    # minimise the first non-known violation
    violations = dedupe(violations)
    for vi, v in enumerate(violations):
        if not v["key"].startswith("F1:"):
            violations[vi] = minimise(ns, v, case)
            break

    sample = {"argv": op["argv"], "planted": [p[0] for p in case["prog"].planted], "exit": obs0["status"],
              "errors": s0["errors"][:4], "warnings": s0["warnings"][:4], "acks": obs0["acks"][:3],
              "requested_outputs": [(o["origin"], o["path"]) for o in case["outs"]][:4],
              "first_source_head": (op["files"].get(case["prog"].mains[0].path) or b"")[:200].decode("utf-8", "replace")}
    return {"digest": _digest(log), "counters": counters, "violations": violations, "nontrivial": nontrivial,
            "states": sorted(states), "sample": sample}


def dedupe(vs):
    seen, out = set(), []
    for v in vs:
        if v["key"] not in seen:
            seen.add(v["key"])
            out.append(v)
    return out


def evaluate(ns, v_op, case_part, want_key):
    """Does running v_op reproduce a violation with key want_key?  (pristine children only)"""
    case = {"op": v_op, "outs": case_part["outs"], "listing": case_part["listing"], "info": case_part["info"]}
    ref = None
    if v_op.get("faults"):
        ref = run(ns, dict(v_op, faults=[]))
    obs = run(ns, v_op)
    keys = [k for k, _w in check_basic(obs, case, ref_obs=ref)]
    return want_key in keys


def minimise(ns, v, case):
    """Shrink fault plan, then source lines, keeping the same violation key."""
    op = v["op"]
    key = v["key"]
    if key.startswith("config-"):
        return v
    cp = v["case"]
    try:
        if not evaluate(ns, op, cp, key):
            return v
        faults = list(op.get("faults") or [])
        if len(faults) > 1:
            faults = shrink_each(faults, lambda fs: evaluate(ns, dict(op, faults=fs), cp, key), max_probes=10)
            op = dict(op, faults=faults)
        # source lines (outputs named by make_* directives must stay for the path model: keep them)
        units = []
        texts = {}
        for p, b in op["files"].items():
            if p.startswith(cliwork.CWD) or p.startswith("/sim/"):
                try:
                    t = b.decode("utf-8")
                except UnicodeDecodeError:
                    continue
                if "\x00" in t or p.endswith((".bin", ".dat", ".raw", ".lst")):
                    continue
                lines = t.split("\n")
                texts[p] = lines
                for j, line in enumerate(lines):
                    if line.strip() and not line.lstrip().startswith(("make_", ".include", ".end", "}")) and "{" not in line:
                        units.append((p, j))

        def build(sub):
            sub = set(sub)
            files = dict(op["files"])
            for p, lines in texts.items():
                keep = [line for j, line in enumerate(lines) if (p, j) in sub or not line.strip()
                        or line.lstrip().startswith(("make_", ".include", ".end", "}")) or "{" in line]
                files[p] = "\n".join(keep).encode("utf-8")
            return dict(op, files=files)

        if op.get("stdin") is None and units and evaluate(ns, build(units), cp, key):
            best = ddmin(units, lambda sub: evaluate(ns, build(sub), cp, key), max_probes=250)
            op2 = build(best)
            if evaluate(ns, op2, cp, key):
                op = op2
        v = dict(v, op=op)
    except procs.HarnessError:
        pass
    return v


def replay(ns, v):
    res = {"violations": []}
    op = v["op"]
    cp = v["case"]
    case = {"op": op, "outs": cp["outs"], "listing": cp["listing"], "info": cp["info"]}
    ref = run(ns, dict(op, faults=[])) if op.get("faults") else None
    obs = run(ns, op)
    found = check_basic(obs, case, ref_obs=ref)
    if v.get("op_base"):
        obs_b = run(ns, v["op_base"])
        found = check_variant(obs_b, obs, None) + found
    print("replay C07: exit=%r diags=%s fatals=%d fired=%s -> %s" % (
        obs["status"], sorted(set(d[1] for d in obs["diags"]))[:5], len(obs["fatals"]), obs["fired"], [k for k, _ in found]))
    for key, what in found:
        if key != "INCONCLUSIVE":
            res["violations"].append({"key": key, "what": what})
    return res
