"""C03 - symbol values do not depend on definition order (Engine B, DESIGN 5.1)."""
import hashlib
import random

from .. import engineb as eb
from ..runner import jdump

RUNS = {"quick": 600, "thorough": 12000}
DUP = {"quick": 32, "thorough": 256}
WALL = {"quick": 1500, "thorough": 6 * 3600}
RUN_TIMEOUT = {"quick": 600, "thorough": 900}
N_PRACTICE_RUNS = {"quick": 42, "thorough": 210}

RULE = ("Each run = one program (seeded generator: constants used in instruction operands, %n registers, "
        "immediates, indices, .byte/.word/.dword, .blkb/.blkw/.align/.repeat counts, '. = . + c' skips, "
        ".ascii/.rad50 <n> chunks, chains up to depth 300; or one of the 21 practice programs) assembled "
        "fault-free, then under 6-24 seeded delivery schedules that answer lookups of chosen constant "
        "definitions 'not ready' until a later statement starts (Symbol._resolve seam, only under "
        "try_compute). Oracle: outcome class and (base, bytes) equal to the fault-free run; a divergence is "
        "a violation only if the concrete witness (definition text really moved) reproduces it with no "
        "injection. 20% of the schedules are also checked directly on the witness (moved source, no injection). "
        "distinct_nontrivial = distinct (program digest, schedule) pairs in which at least one lookup was "
        "refused and later answered.")
COMPONENTS = {
    "real": ["pdpy11.parser", "pdpy11.compiler", "pdpy11.deferred", "pdpy11.types", "pdpy11.operators",
             "pdpy11.insns", "pdpy11.metacommands", "pdpy11.metacommand_impl", "pdpy11.reports"],
    "stubbed": ["file system for .include/insert_file (in-memory SimFS)", "report handler (collecting)"],
    "injected_at": ["types.Symbol._resolve (NotReadyError while try_compute.depth>0 and clock < delivery)",
                    "Compiler.compile_file (statement clock via list-iterator of block.insns)"],
}
ASSUMPTIONS = [
    "a lookup refused under try_compute is indistinguishable, for the code under test, from the definition "
    "standing later in the text; this is not trusted for verdicts: every alarm is re-established on the "
    "really moved source text without any injection",
    "eligible definitions: top-level constant definitions whose name is defined once in the program and "
    "whose expression uses neither '.' nor local labels",
    "diagnostics are not compared (a retried thunk may legitimately repeat a warning)",
]


def prepare(ns, tier):
    pass


def _digest(obj):
    return hashlib.sha256(jdump(obj).encode()).hexdigest()[:16]


def make_case(ns, i, rng, tier):
    names = eb.practice_names()
    if i < N_PRACTICE_RUNS[tier] and names:
        return eb.practice_case(ns, names[i % len(names)])
    profile = {}
    k = rng.random()
    if k < 0.25:
        profile = {"n_consts": (4, 16), "symbolic": 0.9, "pct_reg": 0.3, "w_data": 7, "sumprod": 0.4}
    elif k < 0.4:
        profile = {"chain": 0.9, "n_stmts": (4, 20)}
    elif k < 0.5:
        profile = {"include": 0.0, "insert": 0.0, "multi": 0.0, "n_stmts": (2, 12), "n_consts": (1, 6), "symbolic": 0.95}
    if tier == "thorough" and rng.random() < 0.4:
        profile = dict(profile, n_stmts=(10, 80), n_consts=(4, 20), n_labels=(0, 10))
    # 10 % of the generated programs are FAILING ones (a range-checked operand out of range): the
    # success/failure outcome must not depend on where the constant is defined either
    return eb.generated_case(rng, dict(profile, range_slip=0.1))


def diverges_fn(ns, ref_outcome_cache):
    def diverges(case, sched):
        o0 = eb.outcome(eb.run_case(ns, case))
        w = eb.witness_case(case, sched)
        ow = eb.outcome(eb.run_case(ns, w))
        return not eb.same_outcome(o0, ow)
    return diverges


def read_probe_table(code, header, names):
    if not header or code.count(header) != 1:
        return None
    off = code.index(header) + len(header)
    out = {}
    for k, nm in enumerate(names):
        w = code[off + 4 * k: off + 4 * k + 4]
        if len(w) < 4:
            return None
        out[nm.lower()] = ((w[0] | (w[1] << 8)) << 16) | (w[2] | (w[3] << 8))
    return out


def front_back_violations(case, obs, counters):
    """First sentence of C03, for labels as well as constants: a reference placed before every
    definition (probe table at the start of the file) yields the same value as a reference placed
    after them (probe table at the end)."""
    prog = getattr(case, "prog", None)
    if prog is None or obs["status"] != "ok" or not obs.get("result"):
        return []
    if any(d[0] in ("error", "critical") for d in obs["diags"]):
        return []
    code = obs["result"][1]
    for f in prog.files:
        if f.has_end or not f.front_header or not f.probe_header:
            continue
        front = read_probe_table(code, f.front_header, f.front_order)
        back = read_probe_table(code, f.probe_header, f.probe_order)
        if front is None or back is None:
            continue
        for nm, v in front.items():
            if nm in back:
                counters["probe:forward_vs_backward_references_compared"] = counters.get("probe:forward_vs_backward_references_compared", 0) + 1
                if back[nm] != v:
                    return [{"key": "forward-backward-reference-differs",
                             "what": "symbol %s of %s: a reference before its definition yields %o, a reference after it yields %o"
                                     % (nm, f.path, v, back[nm]),
                             "kind": "C03-probe", "charset": case.charset, "sources": [p for p, _ in case.sources],
                             "files_original": dict(case.files), "files_moved": dict(case.files),
                             "probe": {"file": f.path, "front_header": f.front_header, "front_order": f.front_order,
                                       "back_header": f.probe_header, "back_order": f.probe_order},
                             "schedule": [], "expected": {}}]
    return []


def violation_record(ns, case, sched, o0, ow, how):
    w = eb.witness_case(case, sched)
    moved = [case.defs[k]["name"] for k, _ in sched]
    key = "divergence:%s->%s" % (eb.describe(o0) if o0[0] != "ok" else "ok", eb.describe(ow) if ow[0] != "ok" else "ok")
    what = ("moving definition(s) %s later in the file changes the result: original %s, moved %s (%s)"
            % (",".join(moved), eb.describe(o0), eb.describe(ow), how))
    return {
        "key": key,
        "what": what,
        "kind": "C03-witness",
        "charset": case.charset,
        "sources": [p for p, _ in case.sources],
        "files_original": {p: b for p, b in case.files.items()},
        "files_moved": {p: b for p, b in w.files.items()},
        "schedule": [(case.defs[k]["name"], case.defs[k]["file"], p) for k, p in sched],
        "expected": {"original": eb.describe(o0), "moved": eb.describe(ow)},
    }


def run_one(ns, i, seed_i, tier):
    rng = random.Random(seed_i)
    case = make_case(ns, i, rng, tier)
    counters = {"evaluations": 0, "programs": 1, "schedules": 0, "divergences": 0, "confirmed": 0,
                "unconfirmed": 0, "direct_witness_runs": 0, "sim:statement_ticks": 0, "sim:forces": 0,
                "fault:late_delivery_refusals": 0, "probe:lookup_refused_then_answered": 0,
                "probe:program_has_eligible_defs": 0, "probe:practice_program": 0,
                "probe:baseline_ok": 0, "probe:baseline_failed": 0, "probe:baseline_crashed": 0}
    obs0 = eb.run_case(ns, case)
    counters["evaluations"] += 1
    counters["sim:forces"] += obs0["forces"]
    o0 = eb.outcome(obs0)
    log = [("base", eb.describe(o0), _digest(o0))]
    counters["probe:baseline_ok" if o0[0] == "ok" else ("probe:baseline_failed" if o0[0] == "failed" else "probe:baseline_crashed")] += 1
    if case.origin.startswith("practice"):
        counters["probe:practice_program"] += 1
    if getattr(case, "range_slip", None):
        counters["probe:range_slip_program"] = 1
    violations = front_back_violations(case, obs0, counters)
    nontrivial = []
    states = set()
    prog_digest = _digest(sorted(case.files.items()))
    sample = None
    # programs that are already expensive fault-free (pdpy11's retry cost grows exponentially with
    # pending address-dependent statements, DESIGN 8.3) are not explored under schedules
    expensive = obs0["forces"] > 150_000 and case.origin == "gen"
    if expensive or o0[0] == "BUDGET":
        counters["skipped_expensive_program"] = 1
    budget_hits = 0
    sched_budget = max(400_000, 8 * obs0["forces"])
    if case.defs and not expensive and o0[0] != "BUDGET" and not violations:
        counters["probe:program_has_eligible_defs"] += 1
        nsched = (rng.randint(6, 24) if tier == "quick" else rng.randint(12, 40)) if case.origin == "gen" else (6 if tier == "quick" else 16)
        scheds = eb.make_schedules(rng, case, nsched)
        seen = set()
        for sched in scheds:
            tkey = tuple(sched)
            if tkey in seen:
                continue
            seen.add(tkey)
            counters["schedules"] += 1
            inj = eb.to_injection(case, sched)
            obs = eb.run_case(ns, case, schedule=inj, force_budget=sched_budget)
            counters["evaluations"] += 1
            counters["sim:forces"] += obs["forces"]
            st = obs["inj"]
            counters["sim:statement_ticks"] += st["ticks"]
            counters["fault:late_delivery_refusals"] += st["refused"]
            ok = eb.outcome(obs)
            log.append(("sched", sched, eb.describe(ok), _digest(ok), st["refused"]))
            if st["refused_then_answered"]:
                counters["probe:lookup_refused_then_answered"] += 1
                nontrivial.append(_digest((prog_digest, sched)))
            states.add("%s|%s|%d" % (o0[0], ok[0], min(st["refused_names"], 5)))
            if ok[0] == "BUDGET":
                # step budget is a harness guard, not a verdict: inconclusive
                counters["inconclusive_budget"] = counters.get("inconclusive_budget", 0) + 1
                budget_hits += 1
                if budget_hits >= 2:
                    break
                continue
            diverged = not eb.same_outcome(o0, ok)
            # effects of a definition's position other than its visibility (export tables, scopes) are
            # invisible to the injection: exported constants get the direct check more often
            p_direct = 0.6 if any(case.defs[k].get("extern") for k, _p in sched) else 0.2
            direct = (not diverged) and rng.random() < p_direct
            if diverged or direct:
                if diverged:
                    counters["divergences"] += 1
                else:
                    counters["direct_witness_runs"] += 1
                w = eb.witness_case(case, sched)
                ow = eb.outcome(eb.run_case(ns, w, force_budget=sched_budget))
                counters["evaluations"] += 1
                log.append(("witness", eb.describe(ow), _digest(ow)))
                if ow[0] == "BUDGET":
                    counters["inconclusive_budget"] = counters.get("inconclusive_budget", 0) + 1
                elif not eb.same_outcome(o0, ow):
                    counters["confirmed"] += 1
                    how = "found by late-delivery schedule" if diverged else "found by direct witness sample"
                    c2, s2 = eb.minimise(ns, case, sched, diverges_fn(ns, None))
                    o0m = eb.outcome(eb.run_case(ns, c2))
                    owm = eb.outcome(eb.run_case(ns, eb.witness_case(c2, s2)))
                    if eb.same_outcome(o0m, owm):     # minimisation must preserve the failure
                        c2, s2, o0m, owm = case, sched, o0, ow
                    violations.append(violation_record(ns, c2, s2, o0m, owm, how))
                    break
                elif diverged:
                    counters["unconfirmed"] += 1
            if sample is None and st["refused"]:
                sample = {"origin": case.origin, "features": case.features,
                          "delayed": [(case.defs[k]["name"], p) for k, p in sched][:6],
                          "lookups_refused": st["refused"], "baseline": eb.describe(o0),
                          "under_schedule": eb.describe(ok),
                          "first_source_head": case.sources[0][1][:300]}
    return {"digest": _digest(log), "counters": counters, "violations": violations,
            "nontrivial": nontrivial, "states": sorted(states), "sample": sample}


def replay(ns, v):
    """Rebuild both source trees in pristine children and compare; no simulator knowledge needed."""
    from ..world import SIMROOT
    res = {"violations": []}
    if v.get("kind") == "C03-probe":
        files = v["files_original"]
        sources = [(p, files[p].decode("utf-8")) for p in v["sources"]]
        obs = eb.run_case(ns, eb.Case(sources, files, v.get("charset", "bk"), "replay"))
        pr = v["probe"]
        bad = []
        if obs["status"] == "ok":
            code = obs["result"][1]
            front = read_probe_table(code, pr["front_header"], pr["front_order"])
            back = read_probe_table(code, pr["back_header"], pr["back_order"])
            if front and back:
                bad = [(n, front[n], back[n]) for n in front if n in back and front[n] != back[n]]
        print("replay C03 (forward vs backward references): status %s, differing symbols %s" % (obs["status"], bad[:3]))
        if bad:
            res["violations"].append({"key": v["key"], "what": v["what"]})
        return res
    outs = {}
    for tag in ("files_original", "files_moved"):
        files = v[tag]
        sources = [(p, files[p].decode("utf-8")) for p in v["sources"]]
        case = eb.Case(sources, files, v.get("charset", "bk"), "replay")
        outs[tag] = eb.outcome(eb.run_case(ns, case))
    print("replay C03: original -> %s ; moved -> %s" % (eb.describe(outs["files_original"]), eb.describe(outs["files_moved"])))
    if not eb.same_outcome(outs["files_original"], outs["files_moved"]):
        v2 = dict(v)
        o0, ow = outs["files_original"], outs["files_moved"]
        v2["key"] = "divergence:%s->%s" % (eb.describe(o0) if o0[0] != "ok" else "ok", eb.describe(ow) if ow[0] != "ok" else "ok")
        res["violations"].append({"key": v2["key"], "what": v["what"]})
    return res
