"""C02 - addresses the program sees equal where its bytes land (Engine B + trace monitor, DESIGN 5.2)."""
import hashlib
import random

from .. import engineb as eb
from ..runner import jdump
from . import c03

RUNS = {"quick": 800, "thorough": 15000}
DUP = {"quick": 32, "thorough": 256}
WALL = {"quick": 1500, "thorough": 6 * 3600}
RUN_TIMEOUT = {"quick": 600, "thorough": 900}
N_PRACTICE_RUNS = {"quick": 21, "thorough": 105}

RULE = ("Each run = one program (seeded generator: instructions, data, strings, .blkb/.blkw, .even/.odd/.align, "
        "'. = . + c' skips, .repeat, inserted binary files, include trees to depth 3, 1-3 linked files, link "
        "base even/odd anywhere in 0..0o177776 set first, in the middle, last or not at all; or a practice "
        "program) assembled with the trace monitor (statement, address given, chunk produced, for every block "
        "instance incl. included files and repeat bodies), fault-free and under 4-12 seeded late-delivery "
        "schedules, which turn sizes and contents into 'announced now, computed later'. After each error-free "
        "run the monitor checks address = block start + sum of actual sizes (+ zero-filled skips only where "
        "a '. =' stands), block bytes and image bytes at that address = the chunk, label = address of the "
        "next byte, files follow each other, image length = sum of sizes. A monitor failure under a schedule "
        "is a violation only if the really moved source (no injection) fails the monitor too. "
        "distinct_nontrivial = distinct (program, schedule) with >= 1 statement whose size was committed "
        "while its content was still deferred.")
COMPONENTS = dict(c03.COMPONENTS)
COMPONENTS["monitor_seams"] = ["Compiler.compile_block", "Compiler.compile_insn", "Compiler.compile_word_list",
                               "Compiler.compile_label", "Compiler.compile_include"]
ASSUMPTIONS = [
    "only runs without error-severity diagnostics are judged (the property speaks about programs that assemble "
    "without errors)",
    "the monitor forces recorded chunks after the run has produced its result; forcing is idempotent",
    "the '. = X' skip calls no Compiler method: it is observed as a gap between consecutive given addresses, "
    "accepted only where the block's AST has a '. =' statement between them and the gap is zero-filled",
]

_digest = c03._digest


def make_case(ns, i, rng, tier):
    names = eb.practice_names()
    if i < N_PRACTICE_RUNS[tier] and names:
        return eb.practice_case(ns, names[i % len(names)])
    profile = {}
    k = rng.random()
    if k < 0.3:
        profile = {"include": 0.7, "insert": 0.6, "multi": 0.7, "w_data": 8, "w_repeat": 1.5}
    elif k < 0.5:
        profile = {"n_consts": (4, 14), "symbolic": 0.9, "w_data": 8, "w_repeat": 2.0, "link": 0.9}
    elif k < 0.6:
        profile = {"link": 0.0, "include": 0.5}
    if tier == "thorough" and rng.random() < 0.4:
        profile = dict(profile, n_stmts=(10, 80), n_consts=(4, 20), n_labels=(0, 10))
    return eb.generated_case(rng, profile)


def monitor_violations(obs):
    tr = obs.get("trace") or {}
    return tr.get("violations", [])


def marker_violations(case, obs, counters=None):
    """Independent of the trace wrappers: every label of the generator's ledger, as the assembler's own
    symbol table reports it, must point at the marker bytes that follow it in the image."""
    from . import c19
    table = getattr(case, "markers", None)
    if table is None and getattr(case, "prog", None) is not None:
        table = {f.path: {k.lower(): v for k, v in f.markers.items()} for f in case.prog.files}
        case.markers = table
    if not table or obs["status"] != "ok" or not obs.get("result") or len(obs["result"]) < 3:
        return []
    if any(d[0] in ("error", "critical") for d in obs["diags"]):
        return []
    base, code, listing = obs["result"]
    try:
        blocks = c19.parse_listing(listing)
    except ValueError:
        return []
    out = []
    for fname, entries in blocks:
        markers = table.get(fname)
        if not markers:
            continue
        for t, n in entries:
            mk = markers.get(n.lower())
            if mk is None:
                continue
            try:
                val = int(t, 8)
            except ValueError:
                continue
            if counters is not None:
                counters["probe:label_markers_checked"] = counters.get("probe:label_markers_checked", 0) + 1
            off = val - base
            if not (0 <= off <= len(code)) or code[off:off + len(mk)] != mk:
                out.append(("label-marker", "label %s of %s has value %o = base %o + %d, but the bytes that follow the label in "
                            "the source are not at image offset %d" % (n, fname, val, base, off, off)))
                break
    return out


def dot_probe_violations(case, obs, counters=None):
    """'.' in any statement = base + bytes before it: every self-address probe ('.word 125252, 52525, .',
    also inside .repeat bodies) must hold the address at which it lies in the image."""
    from ..gen import DOT_MAGIC
    expected = getattr(case, "dot_probes", None)
    if expected is None and getattr(case, "prog", None) is not None:
        expected = getattr(case.prog, "dot_probes", None)
        case.dot_probes = expected
    if not expected or obs["status"] != "ok" or not obs.get("result"):
        return []
    if any(d[0] in ("error", "critical") for d in obs["diags"]):
        return []
    base, code = obs["result"][0], obs["result"][1]
    offs = []
    pos = code.find(DOT_MAGIC)
    while pos >= 0:
        offs.append(pos)
        pos = code.find(DOT_MAGIC, pos + 1)
    if len(offs) != expected:
        if counters is not None:
            counters["dot_probe_count_unexpected"] = counters.get("dot_probe_count_unexpected", 0) + 1
        return []       # accidental magic bytes in data, or sizes the generator could not foresee
    out = []
    for o in offs:
        if counters is not None:
            counters["probe:dot_probes_checked"] = counters.get("probe:dot_probes_checked", 0) + 1
        w = code[o + 4:o + 6]
        want = (base + o) % 65536
        if len(w) < 2 or (w[0] | (w[1] << 8)) != want:
            got = (w[0] | (w[1] << 8)) if len(w) == 2 else None
            out.append(("dot-probe", "the statement '.word 125252, 52525, .' that lies at image address %o (base %o + %d) "
                        "holds %s as the value of '.'" % (want, base, o, "%o" % got if got is not None else "nothing")))
            break
    return out


def violation_record(case, sched, viols, how):
    w = eb.witness_case(case, sched) if sched else case
    key, what = viols[0]
    return {
        "key": "trace:" + key,
        "what": what + " [" + how + "]",
        "kind": "C02-trace",
        "charset": case.charset,
        "sources": [p for p, _ in case.sources],
        "files": {p: b for p, b in w.files.items()},
        "schedule": [(case.defs[k]["name"], case.defs[k]["file"], p) for k, p in sched],
        "markers": getattr(case, "markers", None),
        "dot_probes": getattr(case, "dot_probes", None),
    }


def run_one(ns, i, seed_i, tier):
    rng = random.Random(seed_i)
    case = make_case(ns, i, rng, tier)
    counters = {"evaluations": 0, "programs": 1, "schedules": 0, "monitor_failures_under_schedule": 0, "confirmed": 0,
                "unconfirmed": 0, "sim:statement_ticks": 0, "sim:forces": 0, "sim:trace_entries": 0,
                "fault:late_delivery_refusals": 0, "probe:size_committed_while_content_deferred": 0,
                "probe:skip_gaps_checked": 0, "probe:labels_checked": 0, "probe:repeat_blocks": 0,
                "probe:include_blocks": 0, "probe:runs_judged": 0, "probe:runs_with_errors_not_judged": 0,
                "probe:practice_program": int(case.origin.startswith("practice"))}
    for f in case.features:
        if f.startswith("link-") or f.startswith("include"):
            counters["probe:" + f] = 1
    if case.origin == "gen" and not any(f.startswith("link-") for f in case.features):
        counters["probe:link-absent"] = 1
    violations, nontrivial, log = [], [], []
    states = set()
    prog_digest = _digest(sorted(case.files.items()))
    sample = None

    def account(obs):
        counters["evaluations"] += 1
        counters["sim:forces"] += obs["forces"]
        tr = obs.get("trace") or {}
        counters["sim:trace_entries"] += tr.get("entries", 0)
        counters["probe:size_committed_while_content_deferred"] += tr.get("deferred_size_entries", 0)
        counters["probe:skip_gaps_checked"] += tr.get("skips", 0)
        counters["probe:labels_checked"] += tr.get("labels", 0)
        counters["probe:repeat_blocks"] += tr.get("repeat_blocks", 0)
        counters["probe:include_blocks"] += tr.get("include_blocks", 0)
        if tr.get("checked"):
            counters["probe:runs_judged"] += 1
        else:
            counters["probe:runs_with_errors_not_judged"] += 1
        return tr

    obs0 = eb.run_case(ns, case, trace=True, listing=True)
    tr0 = account(obs0)
    log.append(("base", obs0["status"], tr0.get("entries"), tr0.get("violations")))
    expensive = obs0["forces"] > 150_000 and case.origin == "gen"
    if getattr(case, "expected_bin", None) and obs0["status"] == "ok":
        # practice corpus: the image must still be the reference binary shipped with the repository
        import struct
        got = struct.pack("<HH", obs0["result"][0], len(obs0["result"][1])) + obs0["result"][1]
        counters["probe:practice_image_equals_out_bin"] = int(got == case.expected_bin)
    v0 = monitor_violations(obs0) + marker_violations(case, obs0, counters) + dot_probe_violations(case, obs0, counters)
    if v0:
        def bad(c, s):
            c.markers = getattr(case, "markers", None)
            o = eb.run_case(ns, c, trace=True, listing=True)
            return bool(monitor_violations(o)) or (not c.stmts and bool(marker_violations(c, o)))
        c2, s2 = eb.minimise(ns, case, [], bad, max_probes=400) if monitor_violations(obs0) else (case, [])
        v2 = monitor_violations(eb.run_case(ns, c2, trace=True)) or v0
        violations.append(violation_record(c2 if v2 is not v0 else case, [], v2, "fault-free run"))
    sched_budget = max(400_000, 8 * obs0["forces"])
    if case.defs and not violations and not expensive and obs0["status"] != "BUDGET":
        nsched = (rng.randint(4, 12) if tier == "quick" else rng.randint(8, 24)) if case.origin == "gen" else (3 if tier == "quick" else 10)
        seen = set()
        budget_hits = 0
        for sched in eb.make_schedules(rng, case, nsched):
            if tuple(sched) in seen:
                continue
            seen.add(tuple(sched))
            counters["schedules"] += 1
            obs = eb.run_case(ns, case, schedule=eb.to_injection(case, sched), trace=True, force_budget=sched_budget)
            tr = account(obs)
            st = obs["inj"]
            counters["sim:statement_ticks"] += st["ticks"]
            counters["fault:late_delivery_refusals"] += st["refused"]
            log.append(("sched", sched, obs["status"], tr.get("entries"), tr.get("violations")))
            if obs["status"] == "BUDGET":
                counters["inconclusive_budget"] = counters.get("inconclusive_budget", 0) + 1
                budget_hits += 1
                if budget_hits >= 2:
                    break
                continue
            if tr.get("deferred_size_entries", 0) and tr.get("checked"):
                nontrivial.append(_digest((prog_digest, sched)))
            states.add("%s|def=%d|skip=%d|inc=%d|rep=%d" % (obs["status"], min(tr.get("deferred_size_entries", 0), 4),
                                                           min(tr.get("skips", 0), 2), min(tr.get("include_blocks", 0), 3),
                                                           min(tr.get("repeat_blocks", 0), 3)))
            if sample is None and tr.get("deferred_size_entries", 0):
                sample = {"origin": case.origin, "features": case.features,
                          "delayed": [(case.defs[k]["name"], p) for k, p in sched][:6],
                          "trace_entries": tr.get("entries"), "size_committed_while_deferred": tr.get("deferred_size_entries"),
                          "blocks": tr.get("blocks"), "first_source_head": case.sources[0][1][:300]}
            vs = monitor_violations(obs) + dot_probe_violations(case, obs, counters)
            if vs:
                counters["monitor_failures_under_schedule"] += 1
                w = eb.witness_case(case, sched)
                w.dot_probes = getattr(case, "dot_probes", None)
                wobs = eb.run_case(ns, w, trace=True, force_budget=sched_budget)
                counters["evaluations"] += 1
                wv = monitor_violations(wobs) + dot_probe_violations(w, wobs)
                if wv:
                    counters["confirmed"] += 1

                    def still(c, s):
                        return bool(monitor_violations(eb.run_case(ns, eb.witness_case(c, s), trace=True)))
                    c2, s2 = eb.minimise(ns, case, sched, still, max_probes=400)
                    wv2 = monitor_violations(eb.run_case(ns, eb.witness_case(c2, s2), trace=True))
                    if wv2:
                        violations.append(violation_record(c2, s2, wv2, "found under a late-delivery schedule, confirmed on the moved source"))
                    else:
                        violations.append(violation_record(case, sched, wv, "found under a late-delivery schedule, confirmed on the moved source"))
                    break
                counters["unconfirmed"] += 1
    if sample is None:
        sample = {"origin": case.origin, "features": case.features, "trace_entries": tr0.get("entries"),
                  "blocks": tr0.get("blocks"), "judged": tr0.get("checked")}
    if tr0.get("deferred_size_entries", 0) and tr0.get("checked"):
        nontrivial.append(_digest((prog_digest, ())))
    return {"digest": _digest(log), "counters": counters, "violations": violations, "nontrivial": nontrivial,
            "states": sorted(states), "sample": sample}


def replay(ns, v):
    res = {"violations": []}
    files = v["files"]
    sources = [(p, files[p].decode("utf-8")) for p in v["sources"]]
    case = eb.Case(sources, files, v.get("charset", "bk"), "replay")
    case.markers = v.get("markers")
    case.dot_probes = v.get("dot_probes")
    obs = eb.run_case(ns, case, trace=True, listing=True)
    vs = monitor_violations(obs) + marker_violations(case, obs) + dot_probe_violations(case, obs)
    print("replay C02: status %s, %d trace entries, monitor: %s" % (obs["status"], (obs.get("trace") or {}).get("entries", 0), vs[:2]))
    for key, what in vs[:1]:
        res["violations"].append({"key": "trace:" + key, "what": what})
    return res
