"""C18 - assembly is a pure function of its inputs (Engine A histories, DESIGN 4.1)."""
import hashlib
import random
import re

from .. import cliwork, drivers, engineb, gen, procs
from ..runner import jdump
from ..world import SEAM_KINDS, INPUT_SEAMS, OUTPUT_SEAMS, SIMROOT

RUNS = {"quick": 700, "thorough": 15000}
DUP = {"quick": 175, "thorough": 15000}
WALL = {"quick": 1500, "thorough": 6 * 3600}
RUN_TIMEOUT = {"quick": 600, "thorough": 1200}
DIGEST_MISMATCH_IS_VIOLATION = True

RULE = ("Each run = one history of 1-50 operations executed in ONE interpreter (a child forked from the "
        "pristine worker): real main_cli() runs and library assemblies of valid, warning-only, erroneous, "
        "parse-critical and crashing programs, runs terminated by injected I/O faults (input and output "
        "side), by a report handler that raises at its k-th report, by EPIPE on stderr/stdout and by a real "
        "RecursionError under a lowered recursion limit, ending with 1-3 sensitive probe programs. Oracle, "
        "operation by operation: outcome/exit status, escaping exception type, (base, bytes), files written "
        "with their bytes, ordered diagnostics (severity, identifier, spans), bare-format positions and "
        "acknowledgements equal those of the same operation executed alone in a child forked from the "
        "pristine worker; per-run result digests are also compared between workers started with different "
        "PYTHONHASHSEED values. Module-global state (try_compute.depth, awaiting_stack, handlers_stack, "
        "registries, recursion limit) is monitored after every operation as search guidance: a broken "
        "invariant inserts the whole probe set at that point. distinct_nontrivial = distinct histories "
        "(hash of operations + fired faults) containing >= 1 operation in which an exception unwound through "
        "in-flight deferred evaluation or a report handler, followed by >= 1 later operation.")
COMPONENTS = {
    "real": ["pdpy11._cli.main_cli", "pdpy11.parser", "pdpy11.compiler", "pdpy11.deferred", "pdpy11.reports",
             "pdpy11.formats", "module-level state of all pdpy11 modules (the state under test)"],
    "stubbed": ["file system (SimFS)", "cwd", "argv", "stdin/stdout/stderr", "~speaker device"],
    "reference_model": ["the same operation in a child forked from the pristine (imported, nothing assembled) "
                        "worker; worker interpreters differ in PYTHONHASHSEED"],
}
ASSUMPTIONS = [
    "diagnostic message text is not compared (it legitimately contains running instance numbers such as d123); "
    "severity, identifier, spans and bare-format positions are",
    "a forked reference shares its worker's hash seed; hash-seed independence is decided by comparing per-run "
    "digests between workers with different PYTHONHASHSEED",
    "no asynchronous exceptions are injected; RecursionError is a real one raised by the interpreter at a real call",
]

BARE_POS_RE = re.compile(rb"^([^\n]*?:\d+:\d+): (Error|Warning): ", re.M)
# what the graphical handler actually SHOWED (after warning filtering): severity, file, identifier
SHOWN_RE = re.compile(r"\x1b\[(?:91mError|33mWarning)\x1b\[0m in \x1b\[96m([^\x1b]*)\x1b\[0m: \x1b\[38;5;208m\[-W([a-z0-9-]+)\]")


def _digest(obj):
    return hashlib.sha256(jdump(obj).encode()).hexdigest()[:16]


# ---------------------------------------------------------------------------------------------
# operations
# ---------------------------------------------------------------------------------------------
CRASH_CANDIDATES = [
    "br 1.\n",
    ".align 0\n",
    ".word @lab + 4\nlab:\n",
    ".repeat 2\n.include \"nosuch\"\n",
    "clr\nadd @L+4, 13(r2)\nL:\n",
    ".blkb 1/0\n.even\n",
    ".ascii <x>\nx = 400\n",
    # internal errors raised inside operand encoding of offset instructions (the operand stubs are
    # module-level singletons, one per mnemonic: nothing they remember may survive the crash)
    "x:\tnop\n\tbr\tx+'a\n",
    "x:\tnop\n\tbne\tx+'a\n",
    "x:\tnop\n\tsob\tr0, x+'a\n",
    "x:\tnop\n\tbeq\tx-'b\n\tbr x\n",
    "x:\tnop\n\tbcc\tx+'a\n",
]

PROBES = [
    ("undef", ".word undefined_probe_symbol\n"),
    ("fwdref", ".word a, b\na = 5\nb = a + 1\n"),
    ("fwdsize", ".blkb n\n.even\nlab: .word lab\nn = 3\n"),
    ("deferred-error", ".word 1/zero\nzero = 0\n"),
    ("late-link", "nop\n.word .\n.link x\nx = 2000\n"),
    ("deferred-warning", ".byte\n.byte 0\nclr @r0\n"),
    ("repeat", ".repeat n { .word n }\nn = 3\n"),
    ("critical", "mov r0,,r1\n"),
    ("reg", "mov (%a)+, r0\na = 3\n"),
    ("end", "nop\n.end\ngarbage ,,,\n"),
    # complex offsets whose first number is read as a local label (per-mnemonic operand stubs)
    ("offset-fixup", "s: nop\n1: nop\n nop\n sob r0, 1+2\n br 1+2\n bne 1+4\n beq 1+2\n bcc 1+2\n"),
    # paths that merely look like device names, used from a source outside the working directory
    ("devlike", "nop\nmake_raw \"~dump\"\nmake_bin \"~tmp\"\nmake_raw \"~dump x\"\n", "src/pdev.mac"),
]


FIXED_SOURCES = [
    ("fixed1.mac", "lab: .ascii \"ПРИВЕТ, мир\"\n.asciz \"plain text\"\n.even\nend: .word lab, end, 'Я\nmake_wav \"fixed1.wav\"\n"),
    ("fixed2.mac", ".asciz \"Ж\"\n.even\n.word 'ю, \"ab\nx = 'Щ\n.word x\n.rad50 /ABC/\nmake_raw\n"),
    # warnings of many kinds from fixed source positions (whatever is remembered per position of an
    # earlier diagnostic must not silence or alter a later run's diagnostics)
    ("fixed4.mac", ".list\n.title Demo\n.byte\n.byte 0\nclr @r0\n.sbttl Part\n.ident \"V1\"\n.page\n.nlist\nblkb 2\n"
                   "br 1 + 2\n1: nop\nnop\n.repeat 3 { .list }\nmake_raw\n"),
    ("fixed3.mac", ".ascii \"abc\"<12>\"déjà\"\n.even\nmov #'é, r0\nmake_wav \"fixed3.wav\", \"ИМЯ\"\n"),
]


def small_profile(rng):
    return {"n_stmts": (1, 10), "n_consts": (0, 5), "n_labels": (0, 3), "include": 0.3, "insert": 0.3,
            "multi": 0.3, "chain": 0.1, "probe": 0.3}


def make_cli_op(rng, cls):
    n_err = {"valid": 0, "warning": 0, "error": rng.choice([1, 2]), "io": 0}.get(cls, 0)
    n_warn = {"valid": 0, "warning": rng.choice([1, 2, 3]), "error": rng.choice([0, 1])}.get(cls, 0)
    case = cliwork.make_cli_case(rng, small_profile(rng), n_err=n_err, n_warn=n_warn)
    op = case["op"]
    return op


def text_op(rng, text, mode=None, name="probe.mac"):
    """Operation assembling one literal source text, as CLI or LIB."""
    path = cliwork.CWD + "/" + name
    mode = mode or rng.choice(["cli", "lib"])
    dirs = [cliwork.CWD] + ([path.rsplit("/", 1)[0]] if "/" in name else [])
    if mode == "cli":
        argv = [name, "-o", "probe.bin"]
        if rng.random() < 0.5:
            argv += ["--report-format", "bare"]
        if rng.random() < 0.3:
            argv.append("--lst")
        return {"kind": "cli", "argv": argv, "files": {path: text.encode()}, "dirs": dirs, "cwd": cliwork.CWD,
                "readonly": [], "stdin": None, "faults": []}
    return {"kind": "lib", "sources": [(path, text)], "files": {path: text.encode()}, "dirs": dirs,
            "cwd": cliwork.CWD, "charset": "bk", "handler": "collect", "emit": rng.random() < 0.3,
            "listing": rng.random() < 0.3}


def make_lib_op(rng, cls):
    g = gen.Gen(rng, small_profile(rng))
    prog = g.program(cliwork.CWD)
    if cls == "error":
        cliwork.plant(rng, prog, rng.choice([1, 2]), 0)
    elif cls == "warning":
        cliwork.plant(rng, prog, 0, rng.choice([1, 2]))
    files = prog.all_files()
    dirs = sorted(set([cliwork.CWD] + [p.rsplit("/", 1)[0] for p in files]))
    return {"kind": "lib", "sources": [(f.path, f.text()) for f in prog.mains], "files": files, "dirs": dirs,
            "cwd": cliwork.CWD, "charset": rng.choice(["bk", "bk", "koi8-r", "utf-8"]), "handler": "collect",
            "emit": rng.random() < 0.4, "listing": rng.random() < 0.3}


def deep_text(rng):
    k = rng.random()
    if k < 0.3:
        # overflow while *evaluating* (inside deferred evaluation), not while parsing
        n = rng.randint(60, 700)
        form = rng.random()
        if form < 0.4:
            return "x = 1\n.word " + "-" * n + "x\n"
        if form < 0.7:
            return ".word " + "1+" * n + "x\nx = 1\n"
        return "y = " + "1+" * n + "x\n.word y\nx = 2\n"
    k = rng.random()
    if k < 0.4:
        n = rng.randint(40, 300)
        return "".join("a%d = a%d + 1\n" % (i, i + 1) for i in range(n)) + "a%d = 1\n.word a0\n" % n
    if k < 0.7:
        n = rng.randint(20, 200)
        return ".word " + "(" * n + "1" + ")" * n + "\n"
    n = rng.randint(20, 120)
    return ".word " + "+".join(["x%d" % i for i in range(n)]) + "\n" + "".join("x%d = x%d * 2\n" % (i, i + 1) for i in range(n)) + "x%d = 1\n" % n


def make_history(rng, tier="quick"):
    k = rng.random()
    if tier == "thorough" and k < 0.25:
        n = rng.randint(30, 47)
    elif k < 0.6:
        n = rng.randint(1, 6)
    elif k < 0.9:
        n = rng.randint(6, 16)
    else:
        n = rng.randint(16, 47)
    # swarm: per-history class weights
    classes = ["valid", "warning", "error", "critical", "crash", "io", "handler", "epipe", "recursion", "lib-error", "cli-misc",
               "same-source-other-config"]
    weights = [rng.choice([0, 1, 1, 2, 4]) for _ in classes]
    if sum(weights) == 0:
        weights[0] = 1
    ops = []
    for _ in range(n):
        cls = rng.choices(classes, weights)[0]
        if cls in ("valid", "warning", "error"):
            op = make_cli_op(rng, cls) if rng.random() < 0.6 else make_lib_op(rng, cls)
        elif cls == "lib-error":
            op = make_lib_op(rng, "error")
        elif cls == "critical":
            tag, phase, sev, text = rng.choice([f for f in cliwork.ERROR_FAULTS if f[2] == "critical"])
            op = text_op(rng, "nop\n" + text + "\nhalt\n")
        elif cls == "crash":
            op = text_op(rng, rng.choice(CRASH_CANDIDATES))
        elif cls == "same-source-other-config":
            # one FIXED source assembled under varying configuration (charset, outputs): whatever is
            # cached or remembered per source text / per string must not leak between configurations
            name, text = rng.choice(FIXED_SOURCES)
            cs = rng.choice(["bk", "koi8-r", "cp866", "utf-8", "cp1251", "utf-16", "latin-1"])
            if rng.random() < 0.5:
                op = text_op(rng, text, "lib", name)
                op["charset"] = cs
            else:
                op = text_op(rng, text, "cli", name)
                op["argv"] = list(op["argv"]) + ["--charset", cs] + (["-Wall"] if rng.random() < 0.3 else [])
        elif cls == "cli-misc":
            # runs that end inside argument handling: --version, an unknown option, an unsupported charset,
            # a missing input file
            op = make_cli_op(rng, "valid")
            k2 = rng.random()
            if k2 < 0.15:
                # an output whose name merely looks like a device ('~name')
                op = text_op(rng, "nop\nhalt\n", "cli")
                op["argv"] = ["probe.mac", "-o", rng.choice(["~dump", "~tmp", "~dump x"])]
            elif k2 < 0.25:
                op["argv"] = ["--version"]
            elif k2 < 0.5:
                op["argv"] = list(op["argv"]) + ["--no-such-option"]
            elif k2 < 0.75:
                op["argv"] = list(op["argv"]) + ["--charset", "no-such-charset"]
            else:
                op["argv"] = ["no_such_input_file.mac"] + list(op["argv"])
        elif cls == "io":
            op = make_cli_op(rng, "valid")
            op["pending_faults"] = rng.choice([1, 1, 2])
        elif cls == "handler":
            op = make_lib_op(rng, rng.choice(["error", "warning"]))
            op["handler_fault_at"] = rng.choice([0, 0, 1, 2])
        elif cls == "epipe":
            op = make_cli_op(rng, rng.choice(["error", "warning", "valid"]))
            op["faults"] = [{"seam": rng.choice(["stderr", "stderr", "stdout"]), "nth": rng.choice([0, 1, 2, 5, 9]), "kind": "EPIPE"}]
        else:
            op = text_op(rng, deep_text(rng))
            op["reclimit_extra"] = rng.randint(120, 400)
        ops.append((cls, op))
    for _ in range(rng.randint(1, 3)):
        pr = rng.choice(PROBES)
        ops.append(("probe:" + pr[0], text_op(rng, pr[1], None, *pr[2:])))
    if rng.random() < 0.5:
        ops.append(("valid", make_cli_op(rng, "valid")))
    return ops


def resolve_pending_faults(ns, ops, rng):
    """I/O-fault operations choose their fault sites from the seam calls of a fault-free dry run of
    the same operation (in a pristine child), so that every fault lands inside the operation."""
    out = []
    for cls, op in ops:
        nf = op.pop("pending_faults", None)
        if nf:
            dry = procs.fork_call(drivers.run_op, ns, op, timeout=120)
            sites = [(s, n) for (s, n, p) in dry["seam_log"] if s in INPUT_SEAMS or s in OUTPUT_SEAMS]
            faults = []
            for (s, n) in rng.sample(sites, min(len(sites), nf)):
                faults.append({"seam": s, "nth": n, "kind": rng.choice(SEAM_KINDS[s]), "arg": rng.choice([0.0, 0.5, 1.0])})
            op["faults"] = faults
        out.append((cls, op))
    return out


# ---------------------------------------------------------------------------------------------
# results
# ---------------------------------------------------------------------------------------------

def result_key(obs):
    """What C18 says must not depend on history."""
    stdout = obs["stdout"]
    image = cliwork.strip_bare_diag_prefix(stdout)
    positions = [m.group(1).decode("utf-8", "replace") + ":" + m.group(2).decode() for m in BARE_POS_RE.finditer(stdout[:len(stdout) - len(image)])]
    return {
        "status": obs["status"],
        "exc": obs.get("exc_site"),
        "result": obs.get("result"),
        "changed": sorted((p, hashlib.sha256(b).hexdigest() if b is not None else None) for p, b in obs["changed"].items()),
        "diags": obs["diags"],
        "positions": positions,
        "shown": [(m.group(1), m.group(2)) for m in SHOWN_RE.finditer(obs["stderr"])],
        "stdout_image": hashlib.sha256(image).hexdigest(),
        "acks": obs["acks"],
        "fatals": len(obs["fatals"]),
        "internal_error": obs["internal_error"],
        "fired": obs["fired"],
    }


def gstate_ok(g, g0):
    return g == g0


def run_history(ns, ops):
    """Executed in ONE child: all operations one after the other in the same interpreter."""
    g0 = drivers._global_state(ns)
    results = []
    executed = []
    inserted = False
    queue = list(ops)
    while queue:
        cls, op = queue.pop(0)
        obs = drivers.run_op(ns, op)
        executed.append((cls, op))
        g = obs["gstate"]
        results.append({"key": result_key(obs), "gstate": g, "state_probe": obs["state_probe"],
                        "unwound": _unwound(obs)})
        if not gstate_ok(g, g0) and not inserted:
            # search guidance: a broken invariant -> run the whole sensitive probe set right here
            inserted = True
            rng = random.Random(1)
            queue = [("probe!" + pr[0], text_op(rng, pr[1], mode, *pr[2:])) for pr in PROBES for mode in ("lib", "cli")] + queue
    return {"results": results, "executed": executed, "g0": g0}


def _unwound(obs):
    """Did an exception unwind through in-flight deferred evaluation / a report handler?"""
    st = obs["status"]
    if isinstance(st, str) and st.startswith("uncaught"):
        return True
    if obs["internal_error"] or st == "failed" or st == 1:
        return True
    return False


def diff_keys(a, b):
    out = []
    for k in a:
        if a[k] != b[k]:
            out.append(k)
    return out


def run_one(ns, i, seed_i, tier):
    rng = random.Random(seed_i)
    ops = make_history(rng, tier)
    ops = resolve_pending_faults(ns, ops, rng)
    counters = {"evaluations": 0, "histories": 1, "operations": 0, "references": 0, "sim:io_events": 0,
                "probe:invariant_broken_after_op": 0, "probe:probe_set_inserted": 0}
    hist = procs.fork_call(run_history, ns, ops, timeout=RUN_TIMEOUT[tier] - 60)
    executed = hist["executed"]
    violations = []
    keys = []
    unwound_before = False
    nontrivial = []
    states = set()
    fired_all = []
    for idx, ((cls, op), res) in enumerate(zip(executed, hist["results"])):
        counters["operations"] += 1
        counters["evaluations"] += 1
        counters["probe:class:" + cls.split(":")[0].rstrip("!")] = counters.get("probe:class:" + cls.split(":")[0].rstrip("!"), 0) + 1
        if res["gstate"] != hist["g0"]:
            counters["probe:invariant_broken_after_op"] += 1
        if cls.startswith("probe!"):
            counters["probe:probe_set_inserted"] = 1
        for (seam, n, kind, path) in res["key"]["fired"]:
            counters["fault:%s:%s" % (seam, kind)] = counters.get("fault:%s:%s" % (seam, kind), 0) + 1
            fired_all.append((idx, seam, n, kind))
        for sp in res["state_probe"]:
            if sp[0] > 0 or sp[1] > 0:
                counters["probe:fault_fired_inside_deferred_evaluation"] = counters.get("probe:fault_fired_inside_deferred_evaluation", 0) + 1
        ref_obs = procs.fork_call(drivers.run_op, ns, op, timeout=300)
        counters["references"] += 1
        counters["evaluations"] += 1
        ref = result_key(ref_obs)
        keys.append(_digest(ref))
        st = ref["status"]
        states.add("%s|%s|%s" % (cls.split(":")[0], st if not isinstance(st, str) else st.split(":")[0], int(unwound_before)))
        if ref != res["key"] and not violations:
            d = diff_keys(ref, res["key"])
            what = ("operation %d (%s) of a %d-operation history gives a different result than the same operation in a "
                    "pristine process: differs in %s (pristine status %r, in-history status %r, in-history exception %s)"
                    % (idx, cls, len(executed), d, ref["status"], res["key"]["status"], res["key"]["exc"]))
            v = {"key": "history-dependence:%s" % ",".join(d), "what": what, "kind": "C18",
                 "history": [o for _c, o in executed[:idx + 1]], "classes": [c for c, _o in executed[:idx + 1]]}
            violations.append(minimise(ns, v))
        if res["unwound"]:
            unwound_before = True
            counters["probe:exception_unwound_through_inflight_state"] = counters.get("probe:exception_unwound_through_inflight_state", 0) + 1
    # a sample of probes is additionally executed in a truly fresh interpreter (python -B, own hash seed)
    if executed and not violations and rng.random() < 0.04:
        import os
        import subprocess
        import sys
        from .. import boot
        cls, op = executed[-1]
        env = dict(os.environ, PYTHONPATH=boot.VERIF, PYTHONHASHSEED=str(rng.randint(0, 1000)), PYTHONDONTWRITEBYTECODE="1")
        p = subprocess.run([sys.executable, "-B", "-m", "sim.freshop"], input=jdump(op), cwd=boot.VERIF, env=env,
                           stdout=subprocess.PIPE, stderr=subprocess.PIPE, text=True, timeout=300)
        counters["fresh_interpreter_references"] = 1
        counters["evaluations"] += 1
        mine = jdump(result_key(procs.fork_call(drivers.run_op, ns, op, timeout=300)))
        if p.returncode != 0:
            raise procs.HarnessError("fresh interpreter failed: " + p.stderr[-500:])
        if p.stdout != mine:
            violations.append({"key": "fresh-process-differs", "kind": "C18",
                               "what": "operation %s gives a different result in a fresh interpreter than in a child forked from the worker" % cls,
                               "history": [op], "classes": [cls]})
    first_unwound = next((k for k, r in enumerate(hist["results"]) if r["unwound"]), None)
    if first_unwound is not None and first_unwound < len(executed) - 1:
        nontrivial.append(_digest((keys, fired_all)))
    sample = {"length": len(executed), "classes": [c for c, _o in executed][:20],
              "statuses": [r["key"]["status"] for r in hist["results"]][:20],
              "first_op": {k: (v if k in ("argv", "kind", "faults", "handler_fault_at", "reclimit_extra") else None)
                           for k, v in executed[0][1].items() if k in ("argv", "kind", "faults", "handler_fault_at", "reclimit_extra")}}
    return {"digest": _digest(keys), "counters": counters, "violations": violations, "nontrivial": nontrivial,
            "states": sorted(states), "sample": sample}


def digest_violation(rec, h1, h2):
    return {"key": "hash-seed-dependence", "kind": "C18-hashseed",
            "what": "per-operation results of run %s differ between interpreters started with PYTHONHASHSEED=%s and %s"
                    % (rec.get("run"), h1, h2), "run_index": rec.get("run")}


def reproduces(ns, history):
    """Last operation of `history` differs between in-history and pristine execution?"""
    ops = [("x", o) for o in history]
    hist = procs.fork_call(run_history, ns, ops, timeout=600)
    if len(hist["results"]) < len(ops):
        return False
    last = hist["results"][len(ops) - 1]["key"]
    ref = result_key(procs.fork_call(drivers.run_op, ns, history[-1], timeout=300))
    return ref != last


def minimise(ns, v):
    """ddmin over the earlier operations, keeping 'last operation differs from pristine'."""
    from ..minimize import ddmin
    hist = v["history"]
    try:
        if len(hist) > 2 and reproduces(ns, hist):
            prefix, last = hist[:-1], hist[-1]
            best = ddmin(prefix, lambda sub: reproduces(ns, list(sub) + [last]), max_probes=40)
            v = dict(v, history=list(best) + [last], classes=None)
    except procs.HarnessError:
        pass
    return v


def replay(ns, v):
    res = {"violations": []}
    if v.get("kind") == "C18-hashseed":
        print("replay C18: hash-seed dependence is replayed by './check C18 --runs N' with the same VERIF_SEED (needs two interpreters)")
        return res
    history = v["history"]
    ops = [("x", o) for o in history]
    hist = procs.fork_call(run_history, ns, ops, timeout=900)
    last = hist["results"][len(ops) - 1]["key"]
    ref = result_key(procs.fork_call(drivers.run_op, ns, history[-1], timeout=300))
    d = diff_keys(ref, last)
    print("replay C18: %d-operation history; last operation pristine status %r, in-history status %r; differs in %s"
          % (len(history), ref["status"], last["status"], d))
    if d:
        res["violations"].append({"key": "history-dependence:%s" % ",".join(d), "what": v["what"]})
    return res
