"""C19 - the listing agrees with the image (Engine A, DESIGN 4.4)."""
import hashlib
import random
import re

from .. import cliwork, drivers, procs
from ..world import OUTPUT_SEAMS
from . import c07, c13

RUNS = {"quick": 1000, "thorough": 20000}
DUP = {"quick": 32, "thorough": 256}
WALL = {"quick": 1500, "thorough": 6 * 3600}
RUN_TIMEOUT = {"quick": 600, "thorough": 900}

RULE = ("Each run = one real main_cli() execution with --lst on the simulated disk: generated 1-3-file "
        "programs with include trees, labels (each followed by a marker) and constants of any value (negative, "
        "> 16 bit, chains), every output selector (make_* from main/included files, -o incl. stdout forms, "
        "--implicit-bin, none). Decided by simulation: the listing is written only by succeeding runs, never "
        "without an output, at a path beside the first output file named after it, is complete whenever "
        "acknowledged, and a fault at any of its open/write/close seam calls makes the run fail (single-fault "
        "sweep over the listing's seam calls + seeded plans); runs failing for program errors create no "
        "listing. Sampled as by-product: the listing text parsed block by block: one block per source file "
        "name, every ordinary symbol of the generator's ledger exactly once, no local labels, octal value = "
        "value of '.dword S' in the same run's image (and = generator's own value for constants), lines ordered "
        "by (value, name), label value - base = offset of the label's marker in the image. "
        "distinct_nontrivial = distinct (program, selector set, fired fault set) with >= 2 source files or a "
        "negative / > 16 bit symbol value.")
COMPONENTS = dict(c07.COMPONENTS)
COMPONENTS["independent_oracles"] = ["generator ledger of symbols per file and constant values", "sim/cliwork.py path model",
                                     "probe tables and label markers located in the image of the same run"]
ASSUMPTIONS = [
    "content facet is ordinary differential checking on the simulated runs",
    "'first output file' is read as either the first make_* file or the -o file when both exist; with "
    "'-o -' / '-o -.ext' (image on stdout) the listing location is left unchecked",
    "a value is rendered in octal with an optional leading '-' and any zero padding: int(text, 8) must parse it",
]

_digest = c07._digest
run = c07.run
LINE_RE = re.compile(r"^(\S+) (\S+)$")


def parse_listing(text):
    """-> [(file name, [(value text, name)])] or raises ValueError."""
    blocks = []
    lines = text.split("\n")
    i = 0
    while i < len(lines):
        if lines[i] == "":
            i += 1
            continue
        fname = lines[i]
        i += 1
        entries = []
        while i < len(lines) and lines[i] != "":
            m = LINE_RE.match(lines[i])
            if not m:
                raise ValueError("unparseable listing line %r" % lines[i])
            entries.append((m.group(1), m.group(2)))
            i += 1
        blocks.append((fname, entries))
    return blocks


def image_of(obs, case):
    """(base, bytes) as written by this very run, from a bin container (independent reader)."""
    for o in case["outs"]:
        if o["format"] == "bin":
            blob = cliwork.strip_bare_diag_prefix(obs["stdout"]) if o["path"] == "-" else obs["fs_after"].get(o["path"])
            if blob is not None:
                try:
                    d = c13.decode("bin", blob)
                    return d["base"], d["data"]
                except Exception:
                    return None
    return None


def check_listing_content(text, obs, case, image, counters):
    v = []
    prog = case["prog"]
    names = case["info"]["file_names"]
    try:
        blocks = parse_listing(text)
    except ValueError as ex:
        return [("listing-unparseable", str(ex))]
    ledger = {}
    for f in prog.files:
        fname = names.get(f.path, f.path)
        syms = {}
        # symbols defined after a terminating .end never exist
        for s in f.stmts:
            if s.kind == "end":
                break
            if s.kind == "const":
                syms[s.info["name"].lower()] = ("const", s.info["const"])
            elif s.kind == "label":
                syms[s.info["name"].lower()] = ("label", None)
        if syms:
            ledger[fname] = (f, syms)
    seen_files = [b[0] for b in blocks]
    if len(set(seen_files)) != len(seen_files):
        v.append(("listing-file-block-repeated", "a source file name heads more than one block: %s" % seen_files))
    for fname in ledger:
        if fname not in seen_files:
            v.append(("listing-file-block-missing", "no block for source file %s (blocks: %s)" % (fname, seen_files)))
    base_img = image
    for fname, entries in blocks:
        if fname not in ledger:
            v.append(("listing-unknown-file-block", "block headed %r is not one of the source files %s" % (fname, sorted(ledger))))
            continue
        f, syms = ledger[fname]
        listed = [n.lower() for _t, n in entries]
        for n in listed:
            if n[:1].isdigit():
                v.append(("listing-has-local-label", "local label %s listed under %s" % (n, fname)))
        dup = sorted(set(n for n in listed if listed.count(n) > 1))
        if dup:
            v.append(("listing-duplicate-symbol", "symbol(s) %s listed more than once under %s" % (dup[:3], fname)))
        missing = sorted(set(syms) - set(listed))
        extra = sorted(n for n in set(listed) - set(syms) if not n[:1].isdigit())
        if missing:
            v.append(("listing-symbol-missing", "ordinary symbol(s) %s of %s are not listed" % (missing[:3], fname)))
        if extra:
            v.append(("listing-symbol-of-other-file", "symbol(s) %s listed under %s do not belong to that file" % (extra[:3], fname)))
        # values
        vals = []
        bad = False
        for t, n in entries:
            try:
                vals.append((int(t, 8), n))
            except ValueError:
                v.append(("listing-value-not-octal", "value %r of symbol %s is not an octal number" % (t, n)))
                bad = True
        if bad:
            continue
        counters["listing_lines_checked"] = counters.get("listing_lines_checked", 0) + len(vals)
        if vals != sorted(vals, key=lambda x: (x[0], x[1])):
            v.append(("listing-order", "lines under %s are not ordered by (value, name)" % fname))
        # generator-known constant values
        for val, n in vals:
            kind, c = syms.get(n.lower(), (None, None))
            if kind == "const" and c.value is not None:
                if val != c.value:
                    v.append(("listing-wrong-constant-value", "%s listed as %o, defined as %s = %d" % (n, val, c.text, c.value)))
                if c.value < 0:
                    counters["probe:negative_value_listed"] = counters.get("probe:negative_value_listed", 0) + 1
                if abs(c.value) > 0xFFFF:
                    counters["probe:wide_value_listed"] = counters.get("probe:wide_value_listed", 0) + 1
        if base_img is None:
            continue
        base, code = base_img
        # probe table of this file: '.dword S' values in the image of the same run
        if f.probe_header and code.count(f.probe_header) == 1 and not f.has_end:
            off = code.index(f.probe_header) + len(f.probe_header)
            probe = {}
            for k, nm in enumerate(f.probe_order):
                w = code[off + 4 * k: off + 4 * k + 4]
                if len(w) < 4:
                    break
                hi = w[0] | (w[1] << 8)
                lo = w[2] | (w[3] << 8)
                x = (hi << 16) | lo
                probe[nm.lower()] = x
            for val, n in vals:
                if n.lower() in probe:
                    counters["probe_values_compared"] = counters.get("probe_values_compared", 0) + 1
                    if val % (1 << 32) != probe[n.lower()]:
                        v.append(("listing-value-differs-from-image", "%s listed as %o but '.dword %s' in the image is %o"
                                  % (n, val, n, probe[n.lower()])))
        # label markers
        for val, n in vals:
            kind, _c = syms.get(n.lower(), (None, None))
            if kind == "label":
                marker = None
                for key, mk in f.markers.items():
                    if key.lower() == n.lower():
                        marker = mk
                off = val - base
                if marker is not None:
                    counters["label_markers_compared"] = counters.get("label_markers_compared", 0) + 1
                    if not (0 <= off <= len(code)) or code[off:off + len(marker)] != marker:
                        v.append(("listing-label-address", "label %s listed at %o: the byte following the label is not at image offset %d"
                                  % (n, val, off)))
    return v


def listing_paths(obs):
    return sorted(p for (_s, op_, p, _d) in obs["events"] if op_ in ("create", "truncate", "open-rw") and p.endswith(".lst"))


def check_io(obs, case, fault_free=True, ref=None):
    v = []
    info = case["info"]
    cands = [c for c in case["listing"] if c]
    free = any(c is None for c in case["listing"])
    wrote = listing_paths(obs)
    outs = case["outs"]
    if obs["status"] != 0:
        if wrote and not any(p.endswith(".lst") for p, _d in c07.io_failures(obs)[1]):
            v.append(("listing-written-by-failing-run", "run failed (exit %r) but listing %s was created/modified" % (obs["status"], wrote)))
        for a, fmt in obs["acks"]:
            if fmt == "lst":
                v.append(("listing-acknowledged-by-failing-run", "listing %s acknowledged although the run failed" % a))
        return v
    if not outs:
        if wrote:
            v.append(("listing-without-output", "no output file requested, yet listing %s was written" % wrote))
        return v
    if not wrote:
        v.append(("listing-missing", "exit 0, --lst and an output requested, but no listing was written (expected %s)" % cands[:2]))
        return v
    if not free:
        for p in wrote:
            if p not in cands:
                v.append(("listing-at-wrong-path", "listing written to %s, expected beside the first output: %s" % (p, cands)))
    for p in wrote:
        if p not in obs["closed_ok"]:
            v.append(("listing-incomplete", "run succeeded but listing %s was not completely written" % p))
    lst_acks = [a for a, fmt in obs["acks"] if fmt == "lst"]
    if not lst_acks:
        v.append(("listing-not-acknowledged", "listing written but not acknowledged"))
    if ref is not None and ref["status"] == 0:
        for p in wrote:
            if p in ref["fs_after"] and obs["fs_after"].get(p) != ref["fs_after"][p]:
                v.append(("listing-content-changed-under-faults", "listing %s differs from the fault-free one although acknowledged" % p))
    return v


def run_one(ns, i, seed_i, tier):
    rng = random.Random(seed_i)
    profile = {"n_consts": (2, 12), "n_labels": (1, 8), "multi": 0.6, "include": 0.5, "probe": 0.9, "n_stmts": (3, 30)}
    if rng.random() < 0.15:
        profile["chain"] = 0.8
    n_err = 1 if rng.random() < 0.15 else 0
    case = cliwork.make_cli_case(rng, profile, n_err=n_err, n_warn=0, want_outputs=rng.random() < 0.85, force_lst=True)
    op = case["op"]
    counters = {"evaluations": 0, "programs": 1, "fault_runs": 0, "sim:io_events": 0, "sim:forces": 0}
    violations, log, nontrivial = [], [], []
    states = set()

    def account(obs, tag):
        counters["evaluations"] += 1
        counters["sim:io_events"] += len(obs["events"])
        counters["sim:forces"] += obs["forces"]
        for (seam, n, kind, path) in obs["fired"]:
            counters["fault:%s:%s" % (seam, kind)] = counters.get("fault:%s:%s" % (seam, kind), 0) + 1
        log.append((tag, obs["status"], listing_paths(obs), _digest(obs["fs_after"]), obs["acks"]))

    def record(vs, the_op, how):
        for key, what in vs:
            violations.append({"key": key, "what": what + " [" + how + "]", "kind": "C19", "op": the_op,
                               "case": {"outs": case["outs"], "listing": case["listing"], "info": case["info"]},
                               "seed_i": seed_i, "run_index": i})

    obs0 = run(ns, op)
    account(obs0, "base")
    record(check_io(obs0, case), op, "fault-free configuration")
    counters["probe:exit0"] = int(obs0["status"] == 0)
    counters["probe:no_output_requested"] = int(not case["outs"])
    counters["probe:failing_program"] = int(obs0["status"] != 0)
    counters["probe:listing_beside_make_output"] = int(bool(case["outs"]) and case["outs"][0]["origin"] != "-o")
    counters["probe:listing_with_stdout_image"] = int(any(c is None for c in case["listing"]))
    wrote = listing_paths(obs0)
    nfiles = len(case["prog"].files)
    special = any(c.value is not None and (c.value < 0 or c.value > 0xFFFF) for f in case["prog"].files for c in f.consts.values())
    sel = sorted((o["origin"], o["format"]) for o in case["outs"])
    pd = _digest((sorted(op["files"].items()), op["argv"]))
    if obs0["status"] == 0 and wrote and not violations and not case["prog"].planted:
        text = obs0["fs_after"][wrote[-1]].decode("utf-8", "replace")
        image = image_of(obs0, case)
        if image is None:
            # no bin container among the outputs: take the image from a pristine library assembly
            image = c13.lib_reference(ns, case)
            counters["evaluations"] += 1
        counters["probe:content_checked"] = 1
        counters["probe:multi_file_listing"] = int(len(parse_listing_safe(text)) >= 2)
        record(check_listing_content(text, obs0, case, image, counters), op, "fault-free configuration")
        if nfiles >= 2 or special:
            nontrivial.append(_digest((pd, sel, ())))
        states.add("ok|files=%d|special=%d|%s" % (min(nfiles, 4), special, sel[0][0] if sel else "-"))
    else:
        states.add("nolisting|%s|outs=%d" % (obs0["status"], min(len(case["outs"]), 2)))

    # faults at the listing's seam calls (single-fault sweep) + all output seams (sample)
    if obs0["status"] == 0 and wrote and not violations:
        sites = [f for f in c07.fault_sites(obs0) if f["seam"] in OUTPUT_SEAMS]
        lst_calls = set((seam, n) for (seam, n, path) in obs0["seam_log"] if path.endswith(".lst"))
        lst_sites = [f for f in sites if (f["seam"], f["nth"]) in lst_calls]
        other = [f for f in sites if (f["seam"], f["nth"]) not in lst_calls]
        plans = [[dict(f, arg=rng.choice([0.0, 0.5, 1.0]))] for f in lst_sites]
        for f in rng.sample(other, min(len(other), 3)):
            plans.append([dict(f, arg=0.5)])
        for plan in plans:
            opf = dict(op, faults=plan)
            obsf = run(ns, opf)
            account(obsf, "fault")
            counters["fault_runs"] += 1
            vs = []
            if obsf["fired"]:
                if nfiles >= 2 or special:
                    nontrivial.append(_digest((pd, sel, sorted((f[0], f[1], f[2]) for f in obsf["fired"]))))
                _ins, outs_f = c07.io_failures(obsf)
                if outs_f and obsf["status"] == 0:
                    vs.append(("output-io-error-swallowed", "I/O error %s but the run reports success" % (outs_f[0],)))
                if any(p.endswith(".lst") for p, _d in outs_f):
                    counters["probe:listing_write_faulted"] = counters.get("probe:listing_write_faulted", 0) + 1
                    if any(fmt == "lst" for _a, fmt in obsf["acks"]):
                        vs.append(("listing-acknowledged-despite-write-fault", "listing acknowledged although its write failed"))
                elif obsf["status"] != 0:
                    vs += check_io(obsf, case, ref=obs0)
            if vs:
                record(vs, opf, "fault plan %s" % [(f["seam"], f["nth"], f["kind"]) for f in plan])
                break
    violations = c07.dedupe(violations)
    sample = {"argv": op["argv"], "exit": obs0["status"], "listing_paths": wrote,
              "listing_head": (obs0["fs_after"][wrote[-1]].decode("utf-8", "replace")[:400] if wrote and wrote[-1] in obs0["fs_after"] else None),
              "outputs": [(o["origin"], o["path"]) for o in case["outs"]][:4]}
    return {"digest": _digest(log), "counters": counters, "violations": violations, "nontrivial": nontrivial,
            "states": sorted(states), "sample": sample}


def parse_listing_safe(text):
    try:
        return parse_listing(text)
    except ValueError:
        return []


def replay(ns, v):
    """Content checks need the generator's ledger: the case is regenerated from its run seed (the
    generator is a pure function of it) and the recorded op is executed against it."""
    res = {"violations": []}
    rng = random.Random(v["seed_i"])
    profile = {"n_consts": (2, 12), "n_labels": (1, 8), "multi": 0.6, "include": 0.5, "probe": 0.9, "n_stmts": (3, 30)}
    if rng.random() < 0.15:
        profile["chain"] = 0.8
    n_err = 1 if rng.random() < 0.15 else 0
    case = cliwork.make_cli_case(rng, profile, n_err=n_err, n_warn=0, want_outputs=rng.random() < 0.85, force_lst=True)
    op = v["op"]
    if jd(case["op"]["files"]) != jd(op["files"]) or case["op"]["argv"] != op["argv"]:
        print("replay C19: generator no longer reproduces this case from its seed; I/O-facet checks only")
        case = {"op": op, "outs": v["case"]["outs"], "listing": v["case"]["listing"], "info": v["case"]["info"], "prog": None}
    case["op"] = op
    ref = run(ns, dict(op, faults=[]))
    obs = run(ns, op) if op.get("faults") else ref
    found = check_io(obs, case, ref=ref if op.get("faults") else None)
    counters = {}
    wrote = listing_paths(obs)
    if case.get("prog") is not None and not case["prog"].planted and obs["status"] == 0 and wrote and not op.get("faults"):
        image = image_of(obs, case) or c13.lib_reference(ns, case)
        found += check_listing_content(obs["fs_after"][wrote[-1]].decode("utf-8", "replace"), obs, case, image, counters)
    if op.get("faults"):
        _ins, outs_f = c07.io_failures(obs)
        if outs_f and obs["status"] == 0:
            found.append(("output-io-error-swallowed", "I/O error but success"))
        if any(p.endswith(".lst") for p, _d in outs_f) and any(fmt == "lst" for _a, fmt in obs["acks"]):
            found.append(("listing-acknowledged-despite-write-fault", "listing acknowledged although its write failed"))
    print("replay C19: exit=%r listing=%s -> %s" % (obs["status"], wrote, [k for k, _ in found]))
    for key, what in found:
        res["violations"].append({"key": key, "what": what})
    return res


def jd(files):
    return hashlib.sha256(repr(sorted(files.items())).encode()).hexdigest()
