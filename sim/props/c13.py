"""C13 - output containers carry exactly the image (Engine A, DESIGN 4.3)."""
import hashlib
import os
import random
import struct

from .. import cliwork, containers, drivers, gen, procs
from ..runner import jdump
from ..world import SEAM_KINDS, OUTPUT_SEAMS, SIMROOT
from . import c07

RUNS = {"quick": 1500, "thorough": 30000}
DUP = {"quick": 32, "thorough": 256}
WALL = {"quick": 1500, "thorough": 6 * 3600}
RUN_TIMEOUT = {"quick": 600, "thorough": 900}

RULE = ("Each run = one real main_cli() execution on the simulated disk requesting 1-6 outputs at once "
        "(-o in all path forms incl. stdout, --implicit-bin, make_bin/make_raw/make_wav/make_turbo_wav/"
        "make_bk0010_rom with and without path and tape name, from main and included files); 40% are "
        "'image programs' (base anywhere in 0..0o177776, payload 0-4096 bytes: random, all 0xFF, all 0, "
        "byte sums that are exact non-zero multiples of 65535). Decided by simulation: the set of files "
        "created/modified equals the independent path model, and under seeded write faults (open/write/"
        "close: ENOENT, EACCES, EISDIR, ENOSPC with torn prefix, EIO) an acknowledged file is complete and "
        "byte-identical to the fault-free one, an unacknowledged one is absent, stale-truncated or a prefix, "
        "and the run failed. Sampled as by-product: every container decoded by independent readers (bin, "
        "RIFF + BK pulse-width demodulator, turbo) equals the in-memory image of a pristine library "
        "assembly, incl. header, padded tape name and end-around-carry checksum. distinct_nontrivial = "
        "distinct (image digest, output selector set, fired write-fault set) with >= 2 containers.")
COMPONENTS = dict(c07.COMPONENTS)
COMPONENTS["independent_oracles"] = ["sim/cliwork.py path model", "sim/containers.py bin/RIFF/BK tape demodulators",
                                     "library-mode assembly in a pristine child as the image reference"]
ASSUMPTIONS = [
    "codec facet (what the bytes decode to) is ordinary differential checking on the simulated runs, not "
    "decided by fault or schedule exploration",
    "the pulse-train micro-structure accepted by the demodulator (pilot >= 1024 short pulses, marker, gap of "
    "10 short pulses, per-bit sync+data pulse, LSB first; turbo: 3/1-sample high runs) is the BK-0010 tape "
    "format as the property states it",
    "tape names longer than 16 bytes are errors (run fails), so they are outside 'requested output written'",
    "the independent tape reader decodes the four reference tapes shipped in tests/resources (checked at worker start)",
]

_digest = c07._digest
run = c07.run


def image_case(rng):
    """Single-file program whose image is one inserted blob: full control over size, sum and base."""
    prog = gen.Program()
    prog.cwd = cliwork.CWD
    d = rng.choice([cliwork.CWD, cliwork.CWD + "/src"])
    name = rng.choice(["img", "TAPE", "game", "a.b", "prog"]) + rng.choice([".mac", ".MAC", ".Mac", "", ".asm"])
    gf = gen.GFile(d + "/" + name, "main")
    n = rng.choice([0, 1, 2, 3, 255, 256, 257, 514, 1000, 4095, 4096, rng.randint(0, 4096), rng.randint(0, 64)])
    style = rng.random()
    if style < 0.25:
        blob = bytes(rng.getrandbits(8) for _ in range(n))
    elif style < 0.4:
        blob = b"\xff" * n
    elif style < 0.5:
        blob = b"\x00" * n
    elif style < 0.85:
        # byte sum at / next to a multiple of 65535 or 65536 (where carry folding goes wrong):
        # k*65535, k*65536 and their neighbours, for every k the 4096-byte limit allows (k <= 15)
        k = rng.choice([1, 1, 1, 2, 2, 3, rng.randint(1, 15)])
        modulus = rng.choice([65535, 65535, 65536])
        target = max(0, modulus * k + rng.choice([0, 0, 0, -1, -1, 1, -2, 2, -255, 255, rng.randint(-300, 300)]))
        target = min(target, 4096 * 255)
        blob = blob_with_sum(rng, target)
    else:
        blob = bytes(rng.choice([0, 0xFF, 0x55, 0xAA]) for _ in range(n))
    base = rng.choice([0, 0o1000, 0o40000, 0o100000, 0o177776, rng.randrange(0, 0o177777)])
    if len(blob) + base > 0o200000 and rng.random() < 0.7:
        base = rng.randrange(0, max(1, 0o200000 - len(blob)))
    prog.base = base
    stmts = [gen.Stmt(rng.choice([".link %o", ".LINK %d.", ".link 0x%x"]) % base, "link"),
             gen.Stmt('insert_file "payload.dat"', "insert", {"path": d + "/payload.dat", "size": len(blob)})]
    if rng.random() < 0.3:
        extra = [rng.getrandbits(8) for _ in range(rng.randint(1, 4))]
        stmts.append(gen.Stmt(".byte " + ", ".join("%d." % b for b in extra), "byte"))
    gf.stmts = stmts
    prog.blobs[d + "/payload.dat"] = blob
    prog.files.append(gf)
    prog.mains.append(gf)
    kinds = ["make_bin", "make_raw", "make_wav", "make_turbo_wav", "make_bk0010_rom"]
    rng.shuffle(kinds)
    for kind in kinds[:rng.randint(1, 5)]:
        path_arg, tape = None, None
        text = kind
        if rng.random() < 0.7:
            stem = rng.choice(["o", "OUT", "x.y", "t"]) + str(rng.randint(0, 99))
            ext = {"make_bin": ".bin", "make_raw": ".raw", "make_wav": ".wav", "make_turbo_wav": ".wav",
                   "make_bk0010_rom": ".rom"}[kind]
            if rng.random() < 0.3:
                ext = rng.choice([".BIN", ".WAV", "", ".dat", ".Wav"])
            sub = rng.choice(["", "", "build/", "../"])
            path_arg = sub + stem + ext
            if not os.path.normpath(os.path.join(d, path_arg)).startswith(SIMROOT + "/"):
                path_arg = stem + ext
            q = gen.quote_for(rng, path_arg)
            text += " %s%s%s" % (q, path_arg, q)
            if kind in ("make_wav", "make_turbo_wav") and rng.random() < 0.7:
                ln = rng.choice([0, 1, 8, 15, 16, 16, rng.randint(0, 16)])
                alphabet = "ABCDEFGHIJKLMNOPQRSTUVWXYZabcxyz0123456789 .-_"
                if rng.random() < 0.25:
                    alphabet = "АБВГДЕЖЗИКЛМНОПРСТУФХЦЧШЩЫЭЮЯабвгдежзиклмн 0123456789"
                tape = "".join(rng.choice(alphabet) for _ in range(ln))
                q2 = gen.quote_for(rng, tape)
                text += ", %s%s%s" % (q2, tape, q2)
        stmts.insert(rng.randint(0, len(stmts)), gen.Stmt(text, "make", {"kind": kind, "path_arg": path_arg, "tape": tape}))
        prog.features.add(kind)
    return prog


def blob_with_sum(rng, target):
    """<= 4096 bytes whose plain byte sum is exactly `target` (<= 4096*255)."""
    body = []
    s = 0
    room = 4096
    while s < target:
        left = target - s
        # stay feasible: the remaining bytes must be able to carry what is left
        lo = max(0, left - 255 * (room - 1))
        hi = min(255, left)
        b = hi if rng.random() < 0.6 else rng.randint(lo, hi)
        body.append(b)
        s += b
        room -= 1
    rng.shuffle(body)
    return bytes(body)


def make_case(rng):
    if rng.random() < 0.4:
        prog = image_case(rng)
        return cliwork.finish_cli_case(rng, prog, want_outputs=True, allow_stdin=False)
    profile = {"n_stmts": (2, 25), "n_consts": (0, 6)}
    return cliwork.make_cli_case(rng, profile, n_err=0, n_warn=rng.choice([0, 0, 1]), want_outputs=True)


def lib_reference(ns, case):
    """The in-memory image: library-mode assembly of the same sources in a pristine child."""
    op = case["op"]
    info = case["info"]
    sources = []
    for f in case["prog"].mains:
        name = info["file_names"][f.path]
        text = op["stdin"] if name == "stdin" else op["files"][f.path].decode("utf-8")
        sources.append((name, text))
    lop = {"kind": "lib", "sources": sources, "files": dict(op["files"]), "dirs": op["dirs"], "cwd": op["cwd"],
           "charset": case["charset"]}
    obs = procs.fork_call(drivers.run_lib, ns, lop, timeout=120)
    if obs["status"] != "ok":
        return None
    return obs["result"][0], obs["result"][1]


def decode(fmt, blob):
    if fmt == "raw":
        return {"data": bytes(blob)}
    if fmt == "bin":
        base, data = containers.read_bin(blob)
        return {"base": base, "data": data}
    if fmt == "bk_wav":
        return containers.read_bk_wav(blob)
    if fmt == "bk_turbo_wav":
        return containers.read_bk_turbo_wav(blob)
    raise containers.DecodeError("unknown format " + fmt)


def check_success(obs, case, image, counters):
    """Fault-free successful run: files == path model, every container == image."""
    v = []
    outs = case["outs"]
    expected = {}
    for o in outs:
        if o["path"] != "-":
            expected.setdefault(o["path"], []).append(o)
    lst_cands = [c for c in case["listing"] if c]
    lst_free = any(c is None for c in case["listing"])
    changed = set(obs["changed"])
    # a stale copy overwritten with identical bytes does not show in 'changed': use write events too
    written = set(p for (_s, op_, p, _d) in obs["events"] if op_ in ("create", "truncate", "open-rw"))
    for p in expected:
        if p not in written:
            v.append(("output-missing", "requested output %s (%s) was not written at the path the option/directive names"
                      % (p, expected[p][0]["origin"])))
    for p in sorted(written):
        if p in expected or p in lst_cands or (lst_free and p.endswith(".lst")):
            continue
        v.append(("output-at-wrong-path", "file %s was written, but the requested outputs are %s" % (p, sorted(expected))))
    if v or image is None:
        return v
    base, code = image
    for p, os_ in expected.items():
        o = os_[-1]          # the last directive naming a path wins
        blob = obs["fs_after"].get(p)
        v.extend(check_container(o, blob, base, code, counters))
    for o in outs:
        if o["path"] == "-":
            blob = cliwork.strip_bare_diag_prefix(obs["stdout"])
            v.extend(check_container(o, blob, base, code, counters))
    return v


def check_container(o, blob, base, code, counters):
    v = []
    fmt = o["format"]
    where = "%s (%s, %s)" % (o["path"], o["origin"], fmt)
    if blob is None:
        return [("output-missing", "no bytes at %s" % where)]
    counters["containers_decoded"] = counters.get("containers_decoded", 0) + 1
    counters["probe:container:" + fmt] = counters.get("probe:container:" + fmt, 0) + 1
    try:
        d = decode(fmt, blob)
    except containers.DecodeError as ex:
        return [("container-malformed:" + fmt, "%s does not decode: %s" % (where, ex))]
    if d["data"] != code:
        return [("container-wrong-bytes:" + fmt, "%s carries %d bytes that differ from the %d-byte image" % (where, len(d["data"]), len(code)))]
    if "base" in d and d["base"] != base % 65536:
        v.append(("container-wrong-base:" + fmt, "%s header base %o, image base %o" % (where, d["base"], base)))
    if fmt in ("bk_wav", "bk_turbo_wav"):
        if d["length"] != len(code) % 65536:
            v.append(("container-wrong-length:" + fmt, "%s header length %d, image %d" % (where, d["length"], len(code))))
        if o["tape"] is not None and d["name"] != o["tape"]:
            v.append(("container-wrong-name:" + fmt, "%s tape name %r, expected %r" % (where, d["name"], o["tape"])))
        true = containers.bk_checksum(code)
        s = sum(code)
        if s and s % 65535 == 0:
            counters["probe:checksum_sum_multiple_of_65535"] = counters.get("probe:checksum_sum_multiple_of_65535", 0) + 1
        if d["checksum"] != true:
            v.append(("container-wrong-checksum:" + fmt + (":sum-multiple-of-65535" if s and s % 65535 == 0 else ""),
                      "%s checksum %d, BK end-around-carry sum is %d (byte sum %d)" % (where, d["checksum"], true, s)))
        want_rate = 21428 if fmt == "bk_wav" else 40000
        if d["rate"] != want_rate:
            v.append(("container-wrong-rate:" + fmt, "%s sample rate %d" % (where, d["rate"])))
    return v


def check_faulted(obsf, obs0, case):
    """Write faults: acknowledged => complete and identical; unacknowledged => absent / stale-truncated /
    prefix, and the run failed."""
    v = []
    ins, outs_f = c07.io_failures(obsf)
    acked = set(c07._abs(a, case) for a, _f in obsf["acks"])
    ref = obs0["fs_after"]
    if outs_f and obsf["status"] == 0:
        v.append(("output-io-error-swallowed", "an output-side I/O error %s occurred but the run reports success" % (outs_f[0],)))
    state = {}
    for (_seq, op_, path, detail) in obsf["events"]:
        if op_ in ("create", "truncate", "open-rw"):
            state[path] = "open"
        elif op_ == "close":
            state[path] = "closed"
        elif op_ == "fail" and isinstance(detail, str) and detail.startswith(("write", "close")):
            state[path] = "failed"
        elif op_ == "ack":
            full = c07._abs(path, case)
            if state.get(full) != "closed":
                v.append(("ack-of-incomplete-file", "'%s' acknowledged but its write/close had not succeeded" % path))
            state[full] = "acked"
    counts = {}
    for o in case["outs"]:
        counts[o["path"]] = counts.get(o["path"], 0) + 1
    for p in acked:
        if counts.get(p, 0) > 1 or p in obsf["torn"]:
            continue
        if p in ref and obs0["status"] == 0 and obsf["fs_after"].get(p) != ref[p]:
            v.append(("ack-of-wrong-content", "'%s' acknowledged but differs from the fault-free content" % p))
    failed_paths = set(p for p, _d in outs_f)
    for p in obsf["changed"]:
        if p in acked or p.endswith(".lst"):
            continue
        if p not in failed_paths:
            continue
        cur = obsf["fs_after"].get(p)
        good = ref.get(p) if obs0["status"] == 0 else None
        if cur is None:
            continue
        if good is not None and counts.get(p, 0) <= 1 and not good.startswith(cur):
            v.append(("torn-file-not-a-prefix", "unacknowledged %s holds %d bytes that are not a prefix of the complete file" % (p, len(cur))))
    for t in obsf["torn"]:
        if t not in failed_paths:
            v.append(("torn-file-elsewhere", "torn file %s at a path whose write was not faulted" % t))
    return v


def run_one(ns, i, seed_i, tier):
    rng = random.Random(seed_i)
    case = make_case(rng)
    op = case["op"]
    counters = {"evaluations": 0, "programs": 1, "fault_runs": 0, "sim:io_events": 0, "sim:forces": 0,
                "containers_decoded": 0}
    violations = []
    log = []
    states = set()
    nontrivial = []

    def account(obs, tag):
        counters["evaluations"] += 1
        counters["sim:io_events"] += len(obs["events"])
        counters["sim:forces"] += obs["forces"]
        for (seam, n, kind, path) in obs["fired"]:
            counters["fault:%s:%s" % (seam, kind)] = counters.get("fault:%s:%s" % (seam, kind), 0) + 1
        for (side, path, kind) in obs["natural_io"]:
            counters["fault:natural-%s:%s" % (side, kind)] = counters.get("fault:natural-%s:%s" % (side, kind), 0) + 1
        log.append((tag, obs["status"], sorted(obs["changed"]), _digest(obs["fs_after"]), _digest(obs["stdout"]), obs["acks"]))

    def record(vs, the_op, how):
        for key, what in vs:
            violations.append({"key": key, "what": what + " [" + how + "]", "kind": "C13", "op": the_op,
                               "case": {"outs": case["outs"], "listing": case["listing"], "info": case["info"],
                                        "charset": case["charset"],
                                        "mains": [(case["info"]["file_names"][f.path], f.path) for f in case["prog"].mains]}})

    obs0 = run(ns, op)
    account(obs0, "base")
    image = None
    sel = sorted((o["origin"], o["format"]) for o in case["outs"])
    counters["probe:exit0"] = int(obs0["status"] == 0)
    counters["probe:outputs>=2"] = int(len(case["outs"]) >= 2)
    counters["probe:stdout_output"] = int(any(o["path"] == "-" for o in case["outs"]))
    counters["probe:default_path_output"] = int(any(s.info.get("path_arg") is None for f in case["prog"].files for s in f.stmts if s.kind == "make"))
    counters["probe:output_from_included_file"] = int(any(s.kind == "make" for f in case["prog"].files if f.role != "main" for s in f.stmts))
    if obs0["status"] == 0 and not obs0["natural_io"]:
        image = lib_reference(ns, case)
        counters["evaluations"] += 1
        if image is None:
            record([("cli-succeeds-but-library-reference-fails", "main_cli exits 0 but a library assembly of the same sources fails")], op, "fault-free")
        else:
            counters["probe:image_len_0"] = int(len(image[1]) == 0)
            counters["probe:image_len>=1024"] = int(len(image[1]) >= 1024)
            record(check_success(obs0, case, image, counters), op, "fault-free configuration")
            if len(case["outs"]) >= 2:
                nontrivial.append(_digest((hashlib.sha256(image[1]).hexdigest(), image[0], sel, ())))
            states.add("ok|%s|%d" % (",".join(sorted(set(o["format"] for o in case["outs"]))), min(len(image[1]) // 512, 8)))
    else:
        states.add("fail|%s" % obs0["status"])

    # rebuild over the leftovers of an earlier, longer build: every output path already holds a file that
    # STARTS with the new content and continues with a stale tail (or is longer for other reasons);
    # after the rebuild each output must be exactly the container again
    if obs0["status"] == 0 and not violations and not obs0["natural_io"] and rng.random() < 0.35:
        files2 = dict(op["files"])
        touched = []
        for o in case["outs"]:
            pth = o["path"]
            if pth == "-" or pth not in obs0["fs_after"] or pth in op["files"] and pth in [f.path for f in case["prog"].files]:
                continue
            good = obs0["fs_after"][pth]
            files2[pth] = good + rng.choice([b"\x00", b"STALE TAIL FROM AN EARLIER BUILD", b"\xff" * 700])
            touched.append(pth)
        if touched:
            op2 = dict(op, files=files2)
            obs2 = run(ns, op2)
            account(obs2, "rebuild")
            counters["probe:rebuild_over_longer_stale_file"] = 1
            if obs2["status"] != obs0["status"]:
                record([("rebuild-changes-exit", "the same build over leftover output files exits %r instead of %r" % (obs2["status"], obs0["status"]))], op2, "rebuild over longer stale outputs")
            else:
                for pth in touched:
                    if obs2["fs_after"].get(pth) != obs0["fs_after"][pth]:
                        record([("stale-tail-survives", "output %s was rebuilt over a longer file that began with the same bytes: it now holds %d bytes instead of %d (stale tail kept)"
                                 % (pth, len(obs2["fs_after"].get(pth) or b""), len(obs0["fs_after"][pth])))], op2, "rebuild over longer stale outputs")
                        break

    # write-fault configurations
    sites = [f for f in c07.fault_sites(obs0) if f["seam"] in OUTPUT_SEAMS]
    if sites and not violations and obs0["status"] == 0:
        plans = [[dict(f, arg=rng.choice([0.0, 0.3, 0.5, 0.9, 1.0]))] for f in sites]
        if len(plans) > 12 and tier == "quick":
            plans = rng.sample(plans, 12)
        for _ in range(2):
            plans.append([dict(f, arg=rng.choice([0.0, 0.5, 1.0])) for f in rng.sample(sites, min(len(sites), 2))])
        for plan in plans:
            opf = dict(op, faults=plan)
            obsf = run(ns, opf)
            account(obsf, "fault")
            counters["fault_runs"] += 1
            if obsf["fired"] and image is not None and len(case["outs"]) >= 2:
                nontrivial.append(_digest((hashlib.sha256(image[1]).hexdigest(), image[0], sel,
                                           sorted((f[0], f[1], f[2]) for f in obsf["fired"]))))
            if obsf["torn"]:
                counters["probe:torn_file_left"] = counters.get("probe:torn_file_left", 0) + 1
            if obsf["acks"] and obsf["status"] != 0:
                counters["probe:acked_outputs_in_failing_run"] = counters.get("probe:acked_outputs_in_failing_run", 0) + 1
            vs = check_faulted(obsf, obs0, case)
            if vs:
                record(vs, opf, "write-fault plan %s" % [(f["seam"], f["nth"], f["kind"]) for f in plan])
                break
    violations = c07.dedupe(violations)
    sample = {"argv": op["argv"], "exit": obs0["status"],
              "requested_outputs": [(o["origin"], o["format"], o["path"], (o["tape"] or b"").decode("latin-1")) for o in case["outs"]][:6],
              "image": None if image is None else {"base": image[0], "len": len(image[1]), "byte_sum": sum(image[1])},
              "acks": obs0["acks"][:4]}
    return {"digest": _digest(log), "counters": counters, "violations": violations, "nontrivial": nontrivial,
            "states": sorted(states), "sample": sample}


def replay(ns, v):
    res = {"violations": []}
    op = v["op"]
    cp = v["case"]
    case = {"op": op, "outs": cp["outs"], "listing": cp["listing"], "info": cp["info"], "charset": cp["charset"]}
    counters = {}
    base_op = dict(op, faults=[])
    obs0 = run(ns, base_op)
    found = []
    if op.get("faults"):
        obsf = run(ns, op)
        found = check_faulted(obsf, obs0, case)
    else:
        sources = []
        for name, path in cp["mains"]:
            text = op["stdin"] if name == "stdin" else op["files"][path].decode("utf-8")
            sources.append((name, text))
        lop = {"kind": "lib", "sources": sources, "files": dict(op["files"]), "dirs": op["dirs"], "cwd": op["cwd"],
               "charset": cp["charset"]}
        lobs = procs.fork_call(drivers.run_lib, ns, lop, timeout=120)
        if obs0["status"] == 0:
            if lobs["status"] != "ok":
                found = [("cli-succeeds-but-library-reference-fails", "library assembly fails")]
            else:
                found = check_success(obs0, case, (lobs["result"][0], lobs["result"][1]), counters)
    print("replay C13: exit=%r acks=%s -> %s" % (obs0["status"], obs0["acks"][:4], [k for k, _ in found]))
    for key, what in found:
        res["violations"].append({"key": key, "what": what})
    return res


def prepare(ns, tier):
    """The independent tape reader must decode the repository's own reference tapes (tests/resources/*.wav,
    produced by the previous generation of pdpy11): a reader that cannot is a harness error."""
    import glob
    from ..boot import REPO
    for path in sorted(glob.glob(os.path.join(REPO, "tests", "resources", "*.wav"))):
        with open(path, "rb") as f:
            blob = f.read()
        try:
            d = (containers.read_bk_turbo_wav if ".turbo." in os.path.basename(path) else containers.read_bk_wav)(blob)
        except containers.DecodeError as ex:
            raise procs.HarnessError("independent reader cannot decode reference tape %s: %s" % (path, ex))
        if d["checksum"] != containers.bk_checksum(d["data"]) or len(d["data"]) != d["length"]:
            raise procs.HarnessError("reference tape %s decodes inconsistently" % path)
