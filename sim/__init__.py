"""Deterministic simulation with fault injection for pdpy11 (see /verif/DESIGN.md)."""
