"""CLI workload for Engine A: programs + planted program faults + argv + simulated disk layout,
and the independent path model of where outputs must land (C07/C13/C19 share it)."""
import os
import re

from . import gen
from .world import SIMROOT

CWD = SIMROOT + "/w"

# ---------------------------------------------------------------------------------------------
# planted program faults: (tag, phase, nominal severity, text).  Diversity only: oracles use the tap.
# Texts keep word parity when they are warnings (so that nothing else breaks).
# ---------------------------------------------------------------------------------------------
ERROR_FAULTS = [
    ("double-comma", "parse", "critical", "mov r0,,r1"),
    ("trailing-comma-words", "parse", "critical", ".word 1,"),
    ("empty-assignment", "parse", "critical", "zzq ="),
    ("hash-nothing", "parse", "critical", "mov #, r0"),
    ("unclosed-paren", "parse", "critical", ".word (1+2"),
    ("stray-paren", "parse", "critical", "clr )"),
    ("insn-comma", "parse", "critical", "nop ,"),
    ("bad-token", "parse", "critical", "?!?"),
    ("unterminated-dq", "parse", "critical", '.ascii "abc'),
    ("reserved-label", "parse", "error", "r0: nop"),
    ("reserved-const", "parse", "error", "sp = 5"),
    ("local-extern", "parse", "error", "7$:: nop"),
    ("dot-extern", "parse", "error", ". == 5"),
    ("missing-ws", "parse", "error", "clr r0!"),
    ("base8-digit", "compile", "error", ".word 18"),
    ("undefined", "compile", "error", ".word no_such_symbol_zz"),
    ("undefined-insn-operand", "compile", "error", "mov #no_such_symbol_yy, r0"),
    ("byte-range", "compile", "error", ".byte 400"),
    ("word-range", "compile", "error", ".word 200000"),
    ("neg-blkb", "compile", "error", ".blkb -1"),
    ("div-zero", "compile", "error", ".word 1/0"),
    ("mod-zero", "compile", "error", ".word 5 % 0"),
    ("neg-shift", "compile", "error", ".word 1 << -1"),
    ("user-error", "compile", "error", ".error boom"),
    ("user-error-bare", "compile", "error", ".error"),
    ("unknown-insn", "compile", "error", "frobnicate r0"),
    ("unknown-meta", "compile", "error", ".frobnicate 1"),
    ("too-few-operands", "compile", "error", "clr"),
    ("too-few-operands2", "compile", "error", "mov r1"),
    ("too-many-operands", "compile", "error", "nop r1"),
    ("meta-no-operand", "compile", "error", ".blkb"),
    ("meta-many-operands", "compile", "error", ".blkb 1, 2"),
    ("repeat-no-block", "compile", "error", ".repeat 2"),
    ("jsr-not-register", "compile", "error", "jsr 123, 57"),
    ("sob-not-register", "compile", "error", "sob 123, 57"),
    ("register-arith", "compile", "error", "clr r1+1"),
    ("postinc-value", "compile", "error", "clr (1)+"),
    ("label-in-repeat", "compile", "error", ".repeat 2 { lblrep: }"),
    ("const-in-repeat", "compile", "error", ".repeat 2 { qrep = 1 }"),
    ("ascii-byte-range", "compile", "error", ".ascii <400>\n.even"),
    ("rad50-char", "compile", "error", ".rad50 /#/"),
    ("rad50-range", "compile", "error", ".rad50 /A/<50>"),
    ("emt-range", "compile", "error", "emt 400"),
    ("mark-range", "compile", "error", "mark 100"),
    ("missing-include", "compile", "error", '.include "no_such_file.mac"'),
    ("missing-insert", "compile", "error", 'insert_file "no_such_blob.bin"'),
    ("include-dir", "compile", "error", '.include "."'),
    ("meta-hash", "compile", "error", ".byte #1, 0"),
    ("dup-label", "compile", "error", "dupl_zz:\ndupl_zz:"),
    ("dup-const", "compile", "error", "dupc_zz = 1\ndupc_zz = 2"),
    ("dup-mixed", "compile", "error", "dupm_zz = 1\ndupm_zz:"),
    ("dup-local", "compile", "error", "77$:\n77$:"),
    ("odd-branch", "link", "error", "br .+1"),
    ("far-branch", "link", "error", "br .+10000"),
    ("sob-forward", "link", "error", "sob r0, .+4"),
    ("rad50-literal-long", "parse", "error", ".word ^RABCDEF"),
    ("long-tape-name", "compile", "error", 'make_wav "toolong.wav", "THIS NAME IS LONGER THAN SIXTEEN"'),
    ("odd-word", "link", "error", ".byte 1\n.word 2\n.byte 3"),
    ("label-as-insn", "compile", "error", "lblinsn_zz:\nlblinsn_zz"),
    ("extern-number", "compile", "error", ".extern 5"),
    ("string-as-int", "compile", "error", '.blkb "ab" + 1'),
    ("immediate-in-expr", "compile", "error", ".word #1 + 2"),
    ("deferred-in-expr", "compile", "error", ".word @5"),
    ("fp-not-acc", "compile", "error", "ldf r0, r1"),
    ("acc-too-high", "compile", "error", "ldf r7, ac1"),
    ("second-link", "link", "error", ".link 2000\n.link 3000"),
    ("char-codepoint", "compile", "error", ".ascii <-1>\n.even"),
    ("too-long-char", "compile", "error", ".word 'abc'"),
    ("unused-bad-consts", "link", "error", "ubq1_zz = no_such_q1 * 2\nubq2_zz = no_such_q2 + 10\nubq3_zz = 7 / (no_such_q3 - no_such_q3)\nubq4_zz = no_such_q4"),
    ("unused-bad-consts2", "link", "error", "ubr1_zz = 1 / 0\nubr2_zz = no_such_r2\nubr3_zz = 1 << -1"),
]

WARNING_FAULTS = [
    ("byte-implicit", "compile", "warning", ".byte\n.byte 0"),
    ("word-implicit", "compile", "warning", ".even\n.word"),
    ("dword-implicit", "compile", "warning", ".even\n.dword"),
    ("list", "compile", "warning", ".list"),
    ("nlist", "compile", "warning", ".nlist"),
    ("title", "compile", "warning", ".title Hello world"),
    ("sbttl", "compile", "warning", ".sbttl Sub title"),
    ("ident", "compile", "warning", '.ident "V1"'),
    ("page", "compile", "warning", ".page"),
    ("excess-quote", "parse", "warning", ".byte 'a', 'b'"),
    ("excess-dquote", "parse", "warning", '.even\n.word "ab"'),
    ("legacy-deferred", "compile", "warning", ".even\nclr @r0"),
    ("implicit-index", "compile", "warning", ".even\ninc @(r2)"),
    ("meta-typo", "compile", "warning", "blkb 2"),
    ("label-fixup", "compile", "warning", ".even\nbr 88 + 2\n88: nop"),
    ("emt-hash", "compile", "warning", ".even\nemt #15"),
    ("suspicious-label", "parse", "warning", "mov: .even"),
    ("missing-newline", "parse", "warning", ".even\nnop nop"),
    ("fp-register-alias", "compile", "warning", ".even\nldf r0, ac1"),
    ("suspicious-const", "parse", "warning", "clc = 5"),
    # a diagnostic whose source span crosses a line break: word list continued on the next line, then
    # another instruction on that same line
    ("multiline-wordlist", "parse", "warning", ".even\n7, 10,\n 11, 12 nop"),
    ("multiline-wordlist2", "parse", "warning", ".even\n1, 2,\n\t3 halt\n.word 4"),
    # very many warnings from one run (a count of diagnostics is not a reason to fail a build)
    ("warning-flood", "compile", "warning", ".repeat 310 { .byte }\n.byte 0"),
    ("warning-flood2", "compile", "warning", ".even\n.repeat 100 { .word\n.list }"),
]

BARE_DIAG_RE = re.compile(rb"^[^\n]*:\d+:\d+: (Error|Warning): [^\n]*$")


# errors that are only discovered late (final 'resolve every symbol' pass, link time, deferred evaluation):
# a share of programs gets exactly one of these and nothing else
LATE_TAGS = ("unused-bad-consts", "unused-bad-consts2", "odd-branch", "far-branch", "sob-forward", "odd-word",
             "div-zero", "undefined", "second-link")


def plant(rng, prog, n_err, n_warn):
    """Insert planted faults at statement boundaries (never after a terminating .end)."""
    planted = []
    late = [f for f in ERROR_FAULTS if f[0] in LATE_TAGS]
    late += [f for f in ERROR_FAULTS if f[0].startswith("unused-bad")] * 3
    for pool, n in ((ERROR_FAULTS, n_err), (WARNING_FAULTS, n_warn), (late, 1 if n_err == -1 else 0)):
        for _ in range(max(n, 0)):
            tag, phase, sev, text = rng.choice(pool)
            f = rng.choice(prog.files)
            hi = len(f.stmts)
            if f.has_end:
                hi = max(0, hi - 2)
            pos = rng.randint(0, hi)
            if tag == "unterminated-dq":
                text = '.ascii "abc'
            elif rng.random() < 0.3:
                # the offending line as real sources have it: indented with tabs, followed by a comment
                # with non-ASCII text, or very long (the report handlers quote and colourise it)
                deco = rng.choice(["\t%s", "\t\t%s\t; комментарий — ünïcode ✓", "%s ; " + "x" * rng.choice([40, 300, 2000]),
                                   "    %s\t;\ttabs\tin\tthe\tcomment"])
                text = "\n".join(deco % line for line in text.split("\n"))
            f.stmts.insert(pos, gen.Stmt(text, "planted", {"tag": tag, "phase": phase, "sev": sev}))
            planted.append((tag, phase, sev, f.path))
    prog.planted = planted
    return planted


# ---------------------------------------------------------------------------------------------
# independent path model (written from the property statement, not from the code)
# ---------------------------------------------------------------------------------------------

def _strip_mac(path):
    return path[:-4] if path.lower().endswith(".mac") else path


def _resolve_rel(arg, base_file):
    if os.path.isabs(arg):
        return arg
    return os.path.normpath(os.path.join(os.path.dirname(base_file), arg))


def compiled_makes(prog, file_names):
    """make_* directives in the order the assembler meets them: (directive stmt, name of the file that
    contains it as the assembler knows it)."""
    out = []
    by_path = {f.path: f for f in prog.files}

    def walk(f, name, depth):
        if depth > 6:
            return
        for s in f.stmts:
            if s.kind == "end":
                break
            if s.kind == "make":
                out.append((s, name))
            elif s.kind == "include":
                inc = by_path.get(s.info["path"])
                if inc is not None:
                    walk(inc, s.info["path"], depth + 1)
    for f in prog.mains:
        walk(f, file_names[f.path], 0)
    return out


def expected_outputs(prog, argv_info, charset):
    """[(abs path or '-' for stdout, format, tape name bytes or None, origin)] in write order, plus
    listing candidates."""
    cwd = CWD
    file_names = argv_info["file_names"]      # GFile.path -> name the assembler uses (abs path or 'stdin')
    outs = []
    for s, fname in compiled_makes(prog, file_names):
        kind = s.info["kind"]
        arg = s.info["path_arg"]
        fmt = {"make_bin": "bin", "make_bk0010_rom": "bin", "make_raw": "raw", "make_wav": "bk_wav",
               "make_turbo_wav": "bk_turbo_wav"}[kind]
        if arg is not None:
            path = _resolve_rel(arg, fname)
        else:
            path = _strip_mac(fname) + {"bin": ".bin", "raw": "", "bk_wav": ".wav", "bk_turbo_wav": ".wav"}[fmt]
        tape = None
        if fmt in ("bk_wav", "bk_turbo_wav"):
            t = s.info["tape"]
            if t is None:
                t = path.split("/")[-1]
                if t.lower().endswith(".wav"):
                    t = t[:-4]
            try:
                # independent of pdpy11's own 'bk' codec: for letters, digits and ASCII punctuation the BK
                # charset coincides with KOI8-R
                tb = t.encode("koi8-r" if charset == "bk" else charset)
            except UnicodeEncodeError:
                tb = None
            tape = tb if tb is None else tb[:16].ljust(16, b" ")
        outs.append({"path": path if os.path.isabs(path) else os.path.normpath(os.path.join(cwd, path)),
                     "spelled": path, "format": fmt, "tape": tape, "origin": kind})
    o = argv_info.get("outfile")
    if o is None and not outs and argv_info.get("implicit_bin"):
        first = argv_info["first_name"]
        o = _strip_mac(first) + ".bin"
    if o is not None:
        fname = o.split("/")[-1]
        fmt = "bin" if fname.lower().endswith(".bin") else "raw"
        ext = fname.split(".")[-1] if "." in fname else ""
        if o in ("-", "-." + ext):
            outs.append({"path": "-", "spelled": o, "format": fmt, "tape": None, "origin": "-o"})
        else:
            outs.append({"path": os.path.normpath(os.path.join(cwd, o)), "spelled": o, "format": fmt,
                         "tape": None, "origin": "-o"})
    listing = []
    if argv_info.get("lst") and outs:
        cands = []
        firsts = [outs[0]]
        if outs[-1]["origin"] == "-o" and len(outs) > 1:
            firsts.append(outs[-1])
        for f in firsts:
            p = f["spelled"]
            if f["path"] == "-":
                cands.append(None)       # location with '-o -' is left unchecked
                continue
            stem = p.rsplit(".", 1)[0] if "." in p.split("/")[-1] else p
            for c in (p + ".lst", stem + ".lst"):
                cands.append(os.path.normpath(os.path.join(cwd, c)))
        listing = cands
    return outs, listing


# ---------------------------------------------------------------------------------------------
# argv + disk layout
# ---------------------------------------------------------------------------------------------
W_NAMES = ["all", "default", "implicit-operand", "not-implemented", "suspicious-name", "excess-quote",
           "missing-newline", "meta-typo", "legacy-deferred", "implicit-index", "label-fixup", "excess-hash",
           "no-such-warning", "error"]
CHARSETS = ["bk", "bk", "bk", "utf-8", "koi8-r", "latin-1", "cp866"]


def random_warning_flags(rng):
    flags = []
    for _ in range(rng.choice([0, 0, 1, 1, 2, 3, 5])):
        w = rng.choice(W_NAMES)
        if rng.random() < 0.4:
            w = "no-" + w
        flags.append(w)
    return flags


def make_cli_case(rng, profile=None, n_err=None, n_warn=None, allow_stdin=True, want_outputs=None, force_lst=False):
    g = gen.Gen(rng, profile)
    prog = g.program(CWD)
    if n_err is None:
        n_err = rng.choice([0, 0, 0, 1, 1, 2, 3])
        if rng.random() < 0.12:
            n_err = -1          # exactly one late-discovered error
    if n_warn is None:
        n_warn = rng.choice([0, 0, 1, 1, 2, 3])
    plant(rng, prog, n_err, n_warn)
    return finish_cli_case(rng, prog, allow_stdin=allow_stdin, want_outputs=want_outputs, force_lst=force_lst)


def finish_cli_case(rng, prog, allow_stdin=True, want_outputs=None, force_lst=False):
    """argv, disk layout and expected outputs for an already generated program."""
    charset = rng.choice(CHARSETS) if rng.random() < 0.4 else "bk"
    prog.charset = charset

    victim = None
    if rng.random() < 0.2:
        # a source file whose last line is not newline-terminated; if the program has a planted
        # warning, half of the time that warning becomes this very last line
        victim = rng.choice(prog.files)
        cands = [(f, s) for f in prog.files if not f.has_end for s in f.stmts
                 if s.kind == "planted" and s.info.get("sev") == "warning"]
        if cands and rng.random() < 0.5:
            victim, st = rng.choice(cands)
            victim.stmts.remove(st)
            victim.stmts.append(st)
    files = prog.all_files()
    if victim is not None:
        if not victim.has_end and files.get(victim.path, b"").endswith(b"\n"):
            files[victim.path] = files[victim.path][:-1]
            prog.features.add("no-trailing-newline")
    dirs = {CWD, CWD + "/src", CWD + "/src/lib", SIMROOT + "/other"}
    for p in files:
        dirs.add(os.path.dirname(p))
    if rng.random() < 0.7:
        dirs.add(CWD + "/build")
        dirs.add(CWD + "/src/build")
        dirs.add(CWD + "/src/lib/build")
    # never created: '/nodir' -> natural ENOENT on output

    # infiles
    file_names = {}
    infiles = []
    stdin_text = None
    stdin_used = False
    for k, f in enumerate(prog.mains):
        simple = not any(s.kind in ("include", "insert") for s in f.stmts)
        if allow_stdin and simple and not stdin_used and rng.random() < 0.06:
            infiles.append("-")
            file_names[f.path] = "stdin"
            stdin_text = files[f.path].decode("utf-8")
            stdin_used = True
            files.pop(f.path, None)
            continue
        if rng.random() < 0.5:
            arg = os.path.relpath(f.path, CWD)
            if rng.random() < 0.2:
                arg = "./" + arg
        else:
            arg = f.path
        infiles.append(arg)
        file_names[f.path] = f.path
    opts = []      # option groups; infiles stay contiguous (argparse positionals)
    info = {"file_names": file_names, "first_name": file_names[prog.mains[0].path], "outfile": None,
            "implicit_bin": False, "lst": False}
    k = rng.random()
    want_o = k < 0.45 if want_outputs is None else (want_outputs and k < 0.6)
    if want_o:
        stem = rng.choice(["out", "OUT", "a.b", "res", "x y", "prog", "~dump", "~tmp"])
        ext = rng.choice([".bin", ".BIN", ".Bin", ".raw", "", ".dat", ".bin.bak", ".rom", ".bin.bin", ".raw.raw", ".b.bin"])
        sub = rng.choice(["", "", "", "build/", "./", "../w/", "nodir/", "src/"])
        o = sub + stem + ext
        if rng.random() < 0.05:
            o = sub + rng.choice(["bin", ".bin", "raw", "x.bin.", "BIN"])       # names that merely look like suffixes
        if rng.random() < 0.04:
            o = rng.choice(["~dump", "~tmp", "~dump x"])        # looks like a device name, is an ordinary file
        if rng.random() < 0.08:
            o = rng.choice(["-", "-.bin", "-.raw", "-.x"])
        elif rng.random() < 0.1:
            o = CWD + "/" + stem + ext
        info["outfile"] = o
        if o.startswith("-") and o != "-":
            opts.append(["-o" + o])          # '-o -.bin' would be read as an option by argparse
        else:
            opts.append(["-o", o] if rng.random() < 0.8 else ["-o" + o])
    if rng.random() < (0.3 if want_outputs is None else 0.5):
        info["implicit_bin"] = True
        opts.append(["--implicit-bin"])
    if rng.random() < 0.4 or force_lst:
        info["lst"] = True
        opts.append(["--lst"])
    if charset != "bk" or rng.random() < 0.1:
        opts.append(["--charset", charset] if rng.random() < 0.5 else ["--charset=" + charset])
    fmt = rng.choice(["graphical", "graphical", "bare"])
    if fmt == "bare" or rng.random() < 0.2:
        opts.append(["--report-format", fmt])
    wflags = random_warning_flags(rng)
    for w in wflags:
        opts.append(["-W" + w])
    rng.shuffle(opts)
    cut = rng.randint(0, len(opts))
    argv = [a for grp in opts[:cut] for a in grp] + infiles + [a for grp in opts[cut:] for a in grp]
    # '-o' immediately followed by an option-looking outfile is fine for argparse only with '-' forms we use
    info["report_format"] = fmt
    info["wflags"] = wflags

    outs, listing = expected_outputs(prog, info, charset)

    # stale copies of files the run could write, and read-only decoys
    readonly = set()
    for o in outs:
        if o["path"] == "-":
            continue
        if o["path"] in files:
            continue        # e.g. make_raw's default path for a suffix-less source IS the source file
        if os.path.dirname(o["path"]) in dirs and rng.random() < 0.4:
            files[o["path"]] = (b"STALE-" + o["path"].encode()[-20:]) * rng.choice([1, 1, 40, 3000, 30000])
            if rng.random() < 0.06:
                readonly.add(o["path"])
    for c in listing:
        if c and c not in files and os.path.dirname(c) in dirs and rng.random() < 0.3:
            files[c] = b"STALE LISTING\n" * rng.choice([1, 50, 5000])
    files[CWD + "/decoy.bin"] = b"DECOY"
    op = {"kind": "cli", "argv": argv, "files": files, "dirs": sorted(dirs), "cwd": CWD,
          "readonly": sorted(readonly), "stdin": stdin_text, "faults": []}
    return {"op": op, "prog": prog, "info": info, "outs": outs, "listing": listing, "charset": charset}


def variant_argv(argv, info, rng, issued=()):
    """Same run under another report format and another -W selection."""
    base = []
    skip = False
    for a in argv:
        if skip:
            skip = False
            continue
        if a == "--report-format":
            skip = True
            continue
        if a.startswith("-W") or a.startswith("--report-format="):
            continue
        base.append(a)
    fmt = rng.choice(["graphical", "bare"])
    out = base + ["--report-format", fmt]
    for w in random_warning_flags(rng):
        out.append("-W" + w)
    if rng.random() < 0.3:
        out.append("-Wall")
    if rng.random() < 0.2:
        out.append("-Wno-all")
    if issued and rng.random() < 0.5:
        # aim the knob: switch off exactly a diagnostic that fired in the base run (whatever its severity)
        out.append("-Wno-" + rng.choice(sorted(issued)))
    return out, fmt


def strip_bare_diag_prefix(stdout):
    """Remove the bare handler's leading diagnostic lines (they share stdout with '-o -')."""
    pos = 0
    while True:
        nl = stdout.find(b"\n", pos)
        if nl < 0:
            break
        if BARE_DIAG_RE.match(stdout[pos:nl]):
            pos = nl + 1
        else:
            break
    return stdout[pos:]
