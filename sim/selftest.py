"""Self-tests of the machinery itself.

    ./check selftest-determinism   same seeds twice, 1 vs 16 workers, several PYTHONHASHSEED: digests equal
    ./check selftest-sensitivity   break each property on purpose in a scratch copy: the check must alarm
    ./check selftest-fidelity      simulated disk/stdio vs a real `python -m pdpy11` in a real temp dir
    ./check selftest-seeded[:id]   every independently written change under seeded/: the check must alarm

None of these is a registered property check; they establish that the checks can be believed.
"""
import json
import os
import shutil
import subprocess
import sys
import tempfile
import time

from . import boot

VERIF = boot.VERIF
PY = sys.executable

# (name, property expected to alarm, file, old text, new text)
MUTANTS = [
    ("c18-depth-leak-on-exception", "C18", "pdpy11/deferred.py",
     "        self.depth -= 1\n        return exc_type is NotReadyError",
     "        if exc_type is None or exc_type is NotReadyError:\n            self.depth -= 1\n        return exc_type is NotReadyError"),
    ("c18-symbols-class-attribute", "C18", "pdpy11/compiler.py",
     "        self.symbols = CaseInsensitiveDict()\n        self.extern_symbols_mapping",
     "        self.symbols = Compiler._shared\n        self.extern_symbols_mapping"),
    ("c18-handlers-stack-not-popped-on-error", "C18", "pdpy11/reports.py",
     "        assert self.handlers_stack.pop() is self\n",
     "        if exc_type is None:\n            assert self.handlers_stack.pop() is self\n"),
    ("c07-latch-only-for-critical", "C07", "pdpy11/reports.py",
     "    if priority in (error, critical):\n        handler.is_error_condition = True",
     "    if priority is critical:\n        handler.is_error_condition = True"),
    ("c07-exit-not-raising-on-error", "C07", "pdpy11/reports.py",
     "                if exc_type is None or exc_type is RecoverableError:\n                    raise UnrecoverableError()",
     "                if exc_type is RecoverableError:\n                    raise UnrecoverableError()"),
    ("c07-o-ioerror-swallowed", "C07", "pdpy11/_cli.py",
     "                    print(f\"Could not write to '{output_file}':\\n{ex}\", file=sys.stderr)\n                    sys.exit(1)",
     "                    print(f\"Could not write to '{output_file}':\\n{ex}\", file=sys.stderr)"),
    ("c07-warning-control-changes-bytes", "C07", "pdpy11/metacommands.py",
     "            (state[\"insn\"].ctx_start, state[\"insn\"].ctx_end, \"'.byte' without an operand is implicitly treated as '.byte 0'.\\nPlease consider inserting the zero explicitly.\")\n        )\n        return b\"\\x00\"",
     "            (state[\"insn\"].ctx_start, state[\"insn\"].ctx_end, \"'.byte' without an operand is implicitly treated as '.byte 0'.\\nPlease consider inserting the zero explicitly.\")\n        )\n        return b\"\\x01\" if reports.handle_reports.handlers_stack[-1].obj.warning_control.get(\"implicit-operand\", True) is False else b\"\\x00\""),
    ("c13-bin-header-swapped", "C13", "pdpy11/formats.py",
     "struct.pack(\"<HH\", base, len(code)) + code", "struct.pack(\"<HH\", len(code), base) + code"),
    ("c13-msb-first", "C13", "pdpy11/bk_wav.py",
     "[(byte >> i) & 1] for byte in data for i in range(8))", "[(byte >> (7 - i)) & 1] for byte in data for i in range(8))"),
    ("c13-checksum-mod-65536", "C13", "pdpy11/bk_wav.py",
     "    return (total - 1) % (2 ** 16 - 1) + 1", "    return total % (2 ** 16)"),
    ("c13-name-padded-with-nul", "C13", "pdpy11/metacommands.py",
     "encoded_bk_filename.ljust(16, b\" \")", "encoded_bk_filename.ljust(16, b\"\\x00\")"),
    ("c13-default-path-keeps-mac", "C13", "pdpy11/metacommands.py",
     "        write_path = state[\"filename\"]\n        if write_path.lower().endswith(\".mac\"):\n            write_path = write_path[:-4]\n        if file_extension is not None:",
     "        write_path = state[\"filename\"]\n        if write_path.endswith(\".mac\"):\n            write_path = write_path[:-4]\n        if file_extension is not None:"),
    ("c13-riff-size-off-by-8", "C13", "pdpy11/bk_wav.py", "        36 + len(data),", "        44 + len(data),"),
    ("c13-ack-although-write-raised", "C13", "pdpy11/compiler.py",
     "            else:\n                print(f\"File '{filepath}' was written in format '{file_format}'\", file=sys.stderr)",
     "            print(f\"File '{filepath}' was written in format '{file_format}'\", file=sys.stderr)"),
    ("c19-sort-by-name-only", "C19", "pdpy11/compiler.py",
     "labels.sort(key=lambda item: (item[1], item[0]))", "labels.sort(key=lambda item: item[0])"),
    ("c19-decimal", "C19", "pdpy11/compiler.py", "oct(abs(value))[2:].rjust(6, \"0\")", "str(abs(value)).rjust(6, \"0\")"),
    ("c19-local-labels-listed", "C19", "pdpy11/compiler.py",
     "            if name.startswith(\".internal\"):\n                label_name = name[9:].partition(\".\")[2]\n\n                internal_prefix = int(name[9:].partition(\".\")[0])",
     "            if name.startswith(\".internal\") or name.startswith(\".local\"):\n                label_name = name.partition(\".\")[2].partition(\".\")[2]\n\n                internal_prefix = 1 if name.startswith(\".local\") else int(name[9:].partition(\".\")[0])"),
    ("c19-all-under-first-file", "C19", "pdpy11/compiler.py",
     "                state = self.internal_prefix_to_state[internal_prefix]", "                state = self.internal_prefix_to_state[1]"),
    ("c03-undefined-instead-of-not-ready", "C03", "pdpy11/types.py",
     "        not_ready()\n        # TODO: check if there's a local symbol", "        # TODO: check if there's a local symbol"),
    ("c03-revert-skip-fix", "C03", "pdpy11/compiler.py",
     "                                    old_addr_value = wait(old_addr)", "                                    old_addr_value = wait(addr)"),
    ("c03-settled-before-fn", "C03", "pdpy11/deferred.py",
     "            self.value = self.fn()\n            self.settled = True\n            return self.value",
     "            self.settled = True\n            self.value = self.fn()\n            return self.value"),
    ("c02-word-size-lambda", "C02", "pdpy11/metacommands.py",
     "@metacommand(size=lambda state, *operands: 2 * (len(operands) or 1), alias=\".dw\")",
     "@metacommand(size=lambda state, *operands: 2 * (len(operands) or 1) if len(operands) < 3 else 4, alias=\".dw\")"),
    ("c02-concatenator-length-skips-bytes", "C02", "pdpy11/deferred.py",
     "            else:\n                total_len += len(elem)\n        return total_len",
     "            elif len(self.lst) < 4:\n                total_len += len(elem)\n        return total_len"),
    ("c02-include-continues-at-wrong-address", "C02", "pdpy11/compiler.py",
     "            link_base[\"promise\"].settle(addr)", "            link_base[\"promise\"].settle(addr + 2)"),
    ("c02-wordlist-deferred-advance", "C02", "pdpy11/compiler.py",
     "                    chunk = self.compile_word_list(insn, insn.words, state)\n                    data += chunk\n                    if isinstance(chunk, BaseDeferred):\n                        addr += chunk.length()",
     "                    chunk = self.compile_word_list(insn, insn.words, state)\n                    data += chunk\n                    if isinstance(chunk, BaseDeferred):\n                        addr += 2 if len(insn.words) == 3 else chunk.length()"),
]

EXTRA_PRELUDE = {
    # two cooperating sites: the stack leaks on the error path AND the dispatcher takes the bottom entry
    "c18-handlers-stack-not-popped-on-error": ("pdpy11/reports.py", "    handler = handle_reports.handlers_stack[-1]\n",
                                               "    handler = handle_reports.handlers_stack[0]\n"),
    "c18-symbols-class-attribute": ("pdpy11/compiler.py", "class Compiler:\n", "class Compiler:\n    _shared = CaseInsensitiveDict()\n"),
}


def make_scratch():
    d = tempfile.mkdtemp(prefix="pdpy11-mut-")
    shutil.copytree(os.path.join(boot.REPO, "pdpy11"), os.path.join(d, "pdpy11"),
                    ignore=shutil.ignore_patterns("__pycache__"))
    shutil.copytree(os.path.join(boot.REPO, "tests", "practice"), os.path.join(d, "tests", "practice"))
    return d


def apply(d, file, old, new):
    p = os.path.join(d, file)
    s = open(p).read()
    if old not in s:
        return False
    open(p, "w").write(s.replace(old, new, 1))
    return True


def sensitivity(tier, jobs, only=None):
    results = []
    ok = True
    for name, prop, file, old, new in MUTANTS:
        if only and only not in name and only != prop:
            continue
        d = make_scratch()
        try:
            if not apply(d, file, old, new):
                print("MUTANT %-45s could not be applied (source changed?)" % name)
                ok = False
                continue
            if name in EXTRA_PRELUDE:
                apply(d, *EXTRA_PRELUDE[name])
            env = dict(os.environ, VERIF_REPO=d)
            t = time.time()
            p = subprocess.run([os.path.join(VERIF, "check"), prop, "--tier", "quick"], cwd=VERIF, env=env,
                               stdout=subprocess.PIPE, stderr=subprocess.STDOUT, text=True)
            vio = [l for l in p.stdout.splitlines() if l.startswith("VIOLATION")]
            first = next((l for l in p.stdout.splitlines() if l.startswith("  ")), "")
            caught = p.returncode == 1 and bool(vio)
            print("MUTANT %-45s %s -> %s (exit %d, %d VIOLATION lines, %.0fs) %s" %
                  (name, prop, "caught" if caught else "MISSED", p.returncode, len(vio), time.time() - t, first.strip()[:110]))
            results.append((name, prop, caught))
            if not caught:
                ok = False
        finally:
            shutil.rmtree(d, ignore_errors=True)
    print("sensitivity: %d/%d mutants caught" % (sum(1 for r in results if r[2]), len(results)))
    return 0 if ok else 1


def determinism(tier, jobs):
    """Every property: the same run indices executed with 16 workers, with 5 workers and with the
    worker->PYTHONHASHSEED assignment rotated; all per-run event-log digests must be identical."""
    rc = 0
    n = 160 if tier == "quick" else 1024
    for prop in ("C02", "C03", "C07", "C13", "C18", "C19"):
        dumps = []
        for (j, shift) in ((16, 0), (5, 0), (16, 7)):
            fd, path = tempfile.mkstemp(prefix="verif-digests-")
            os.close(fd)
            env = dict(os.environ, VERIF_NO_EVIDENCE="1", VERIF_DIGEST_DUMP=path, VERIF_HASHSEED_SHIFT=str(shift))
            p = subprocess.run([os.path.join(VERIF, "check"), prop, "--runs", str(n), "--jobs", str(j)], cwd=VERIF,
                               env=env, stdout=subprocess.PIPE, stderr=subprocess.STDOUT, text=True)
            try:
                dumps.append((j, shift, p.returncode, json.load(open(path))))
            except ValueError:
                dumps.append((j, shift, p.returncode, {}))
            os.unlink(path)
        ref = dumps[0][3]
        bad = []
        for (j, shift, code, d) in dumps[1:]:
            bad += [(j, shift, i) for i in ref if d.get(i) != ref[i]]
        okay = not bad and all(len(d[3]) == n for d in dumps) and all(d[2] == 0 for d in dumps)
        print("determinism %s: %d runs x 3 configurations (16 workers, 5 workers, rotated hash seeds): %s %s" %
              (prop, n, "identical digests" if okay else "MISMATCH", bad[:5] if bad else [d[2] for d in dumps]))
        if not okay:
            rc = 1
    return rc


def seeded(tier, jobs, only=None):
    """Every independently written change under /verif/seeded: apply its patch to a throw-away worktree
    of /repo (outside /repo and /verif), run the property's quick check against it, expect an alarm."""
    import glob
    results = []
    for d in sorted(glob.glob(os.path.join(VERIF, "seeded", "*", ""))):
        sid = os.path.basename(d.rstrip("/"))
        if only and only not in sid:
            continue
        meta = json.load(open(os.path.join(d, "meta.json")))
        prop = meta["property"]
        tmp = tempfile.mkdtemp(prefix="pdpy11-seeded-")
        wt = os.path.join(tmp, "wt")
        try:
            subprocess.run(["git", "-C", boot.REPO, "worktree", "add", "-q", "--detach", wt, "HEAD"], check=True)
            ap = subprocess.run(["git", "-C", wt, "apply", os.path.join(d, "patch.diff")])
            if ap.returncode != 0:
                print("SEEDED %-8s %s -> patch does not apply any more" % (sid, prop))
                results.append((sid, False, False))
                continue
            t = time.time()
            p = subprocess.run([os.path.join(VERIF, "check"), prop, "--tier", "quick"], cwd=VERIF,
                               env=dict(os.environ, VERIF_REPO=wt), stdout=subprocess.PIPE, stderr=subprocess.STDOUT, text=True)
            vio = [l for l in p.stdout.splitlines() if l.startswith("VIOLATION")]
            last = p.stdout.strip().splitlines()[-1] if p.stdout.strip() else ""
            caught = p.returncode == 1 and bool(vio)
            out_of_scope = meta.get("status", "").startswith("not caught")
            verdict = "caught" if caught else ("not caught (recorded as outside the operationalised scope)" if out_of_scope else "MISSED")
            print("SEEDED %-8s %s -> %s (exit %d, %.0fs) %s" % (sid, prop, verdict, p.returncode, time.time() - t, last[:90]))
            results.append((sid, caught or out_of_scope, out_of_scope and not caught))
        finally:
            subprocess.run(["git", "-C", boot.REPO, "worktree", "remove", "--force", wt])
            subprocess.run(["git", "-C", boot.REPO, "worktree", "prune"])
            shutil.rmtree(tmp, ignore_errors=True)
    print("seeded: %d of %d changes caught, %d recorded as outside the operationalised scope, %d missed" %
          (sum(1 for r in results if r[1] and not r[2]), len(results), sum(1 for r in results if r[2]),
           sum(1 for r in results if not r[1])))
    return 0 if all(r[1] for r in results) else 1


def main(prop, tier, jobs):
    if prop.startswith("selftest-seeded"):
        return seeded(tier, jobs, prop.split(":", 1)[1] if ":" in prop else None)
    if prop.startswith("selftest-sensitivity"):
        only = prop.split(":", 1)[1] if ":" in prop else None
        return sensitivity(tier, jobs, only)
    if prop == "selftest-determinism":
        return determinism(tier, jobs)
    if prop == "selftest-fidelity":
        from . import fidelity
        return fidelity.main(tier)
    print("unknown selftest", prop)
    return 2
