"""Engine B shared machinery: cases (programs on a simulated disk), eligible definitions, delivery
schedules (swarm), witness construction, minimisation.  Used by C03 and C02."""
import os
import random
import re

from . import drivers, gen, procs, lazysched
from .boot import REPO
from .minimize import shrink_each, ddmin
from .world import SIMROOT

IDENT_RE = re.compile(r"[A-Za-z_$.][A-Za-z0-9_$.]*")
SIZE_KINDS = ("blkb", "blkw", "align", "skip", "repeat", "ascii", "rad50")


class Case:
    """A program on the simulated disk + what the generator knows about it."""

    def __init__(self, sources, files, charset="bk", origin="gen"):
        self.sources = sources          # [(path, text)] in link order
        self.files = files              # {path: bytes} everything on disk (incl. sources)
        self.charset = charset
        self.origin = origin
        self.defs = []                  # eligible definitions: dict(name, file, a, b, cands[], idx)
        self.stmts = {}                 # file -> [(start, end, kind, text)] (generated programs)
        self.features = []

    def op(self, schedule=None, trace=False, force_budget=2_000_000, listing=False):
        op = {"kind": "lib", "sources": list(self.sources), "files": dict(self.files),
              "charset": self.charset, "cwd": SIMROOT + "/w", "force_budget": force_budget}
        if listing:
            op["listing"] = True
        if schedule is not None:
            op["schedule"] = schedule
        if trace:
            op["trace"] = True
        return op

    def with_texts(self, texts):
        """New case with some files' texts replaced."""
        files = dict(self.files)
        for p, t in texts.items():
            files[p] = t.encode("utf-8")
        sources = [(p, texts.get(p, t)) for p, t in self.sources]
        c = Case(sources, files, self.charset, self.origin)
        return c

    def text_of(self, path):
        return self.files[path].decode("utf-8")


def outcome(obs):
    st = obs["status"]
    if st == "ok":
        return ("ok", obs["result"][0], obs["result"][1])
    if st.startswith("uncaught"):
        return (st, obs.get("exc_site"))
    return (st,)


def same_outcome(a, b):
    if a[0] != b[0]:
        return False
    if a[0] == "ok":
        return a[1:] == b[1:]
    return True


def describe(o):
    if o[0] == "ok":
        return "ok(base=%o,len=%d)" % (o[1], len(o[2]))
    if len(o) > 1 and o[1]:
        return "%s[%s]" % (o[0], o[1])
    return o[0]


def run_case(ns, case, schedule=None, trace=False, timeout=120, force_budget=2_000_000, listing=False):
    return procs.fork_call(drivers.run_lib, ns, case.op(schedule, trace, force_budget, listing), timeout=timeout)


# --------------------------------------------------------------------------------------------
# cases
# --------------------------------------------------------------------------------------------

def plant_range_slip(rng, prog):
    """A FAILING program for the 'success/failure outcome' half of C03: one instruction whose
    range-checked immediate operand (emt/trap: 0..377, mark: 0..77) is a constant of the same file
    with a value outside that range.  The assembly must fail wherever the constant is defined."""
    cands = []
    for f in prog.files:
        for c in f.consts.values():
            if c.value is not None and not c.positional and 0 <= c.value <= 0o177000:
                cands.append((f, c))
    if not cands:
        return None
    f, c = rng.choice(cands)
    mnem = rng.choice(["emt", "trap", "mark"])
    limit = 0o77 if mnem == "mark" else 0o377
    if c.value > limit:
        operand = c.name
    else:
        operand = "%s + %o" % (c.name, rng.choice([0o400, 0o1000, 0o401]))
    hi = len(f.stmts)
    for k, st in enumerate(f.stmts):
        if st.kind == "end":
            hi = k
            break
    # never inside a probe table (header, then one .dword per symbol, constants possibly in between)
    def inside_table(pos):
        j = pos
        while j < len(f.stmts) and f.stmts[j].kind == "const":
            j += 1
        return j < len(f.stmts) and f.stmts[j].kind in ("probe", "fprobe")
    allowed = [q for q in range(0, hi + 1) if not inside_table(q)]
    if not allowed:
        return None
    pos = rng.choice(allowed)
    f.stmts.insert(pos, gen.Stmt(".even\n%s %s" % (mnem, operand), "planted", {"tag": "range-slip"}))
    return (mnem, operand, f.path)


def generated_case(rng, profile=None):
    g = gen.Gen(rng, profile)
    prog = g.program()
    slipped = None
    if profile and "range_slip" in profile and rng.random() < profile["range_slip"]:
        slipped = plant_range_slip(rng, prog)
    files = prog.all_files()
    sources = [(f.path, f.text()) for f in prog.mains]
    case = Case(sources, files, rng.choice(["bk", "bk", "bk", "utf-8", "koi8-r", "cp866"]), "gen")
    case.range_slip = slipped
    case.features = sorted(prog.features)
    case.prog = prog
    # eligible definitions
    names = {}
    for f in prog.files:
        for s in f.stmts:
            if s.kind == "const":
                names.setdefault(s.info["name"].lower(), []).append(f.path)
            elif s.kind == "label":
                names.setdefault(s.info["name"].lower(), []).append(f.path)
    for f in prog.files:
        lay = f.layout()
        text_len = lay[-1][1] if lay else 0
        case.stmts[f.path] = [(a, b, s.kind, s.text) for (a, b), s in zip(lay, f.stmts)]
        end_idx = None
        for k, s in enumerate(f.stmts):
            if s.kind == "end":
                end_idx = k
                break
        for k, s in enumerate(f.stmts):
            if s.kind != "const":
                continue
            nm = s.info["name"].lower()
            if len(names.get(nm, ())) != 1:
                continue
            if end_idx is not None and k > end_idx:
                continue
            last = end_idx if end_idx is not None else len(f.stmts)
            cands = [lay[j][0] for j in range(k + 1, last)]
            cands.append(lay[end_idx][0] if end_idx is not None else text_len)
            cands = sorted(set(c for c in cands if c >= lay[k][1]))
            if not cands:
                continue
            case.defs.append({"name": nm, "file": f.path, "a": lay[k][0], "b": lay[k][1], "cands": cands, "idx": k,
                              "extern": bool(getattr(s.info.get("const"), "extern", False)),
                              "deps": sorted(x.lower() for x in getattr(s.info.get("const"), "deps", ()) or ())})
    return case


_practice_cache = {}


def practice_names():
    root = os.path.join(REPO, "tests", "practice")
    try:
        return sorted(n for n in os.listdir(root) if os.path.exists(os.path.join(root, n, "code.mac")))
    except OSError:
        return []


def practice_case(ns, name):
    """A practice-corpus program, read once from the real disk into the simulated one."""
    root = os.path.join(REPO, "tests", "practice", name)
    with open(os.path.join(root, "code.mac"), encoding="utf-8") as f:
        text = f.read()
    path = SIMROOT + "/practice/%s/code.mac" % name
    files = {}
    for fn in sorted(os.listdir(root)):
        if fn == "out.bin" or not os.path.isfile(os.path.join(root, fn)):
            continue
        with open(os.path.join(root, fn), "rb") as f:
            files[SIMROOT + "/practice/%s/%s" % (name, fn)] = f.read()
    files[path] = text.encode("utf-8")
    case = Case([(path, text)], files, "bk", "practice:" + name)
    try:
        with open(os.path.join(root, "out.bin"), "rb") as f:
            case.expected_bin = f.read()
    except OSError:
        case.expected_bin = None
    info = procs.fork_call(_practice_defs, ns, path, text, timeout=120)
    case.defs = info
    return case


def _practice_defs(ns, path, text):
    """Eligible constant definitions of an arbitrary source text, from pdpy11's own parse."""
    r = lazysched.statement_starts(ns, path, text)
    if r is None:
        return []
    insns, starts, end_pos = r
    T = ns.types
    counts = {}
    for i in insns:
        if isinstance(i, T.Assignment) and isinstance(i.target, T.Symbol):
            counts[i.target.name.lower()] = counts.get(i.target.name.lower(), 0) + 1
        elif isinstance(i, T.Label):
            counts[i.name.lower()] = counts.get(i.name.lower(), 0) + 1
    defs = []
    limit = end_pos if end_pos is not None else len(text)
    for k, i in enumerate(insns):
        if not (isinstance(i, T.Assignment) and isinstance(i.target, T.Symbol)):
            continue
        a, b = i.ctx_start.pos, i.ctx_end.pos
        if a >= limit:
            continue
        nm = i.target.name.lower()
        if counts.get(nm) != 1:
            continue
        used, flags = set(), set()
        lazysched.expr_symbols(ns, i.value, used, flags)
        if flags:
            continue
        cands = [p for p in starts[k + 1:] if b <= p <= limit]
        cands.append(limit)
        cands = sorted(set(cands))
        if cands:
            defs.append({"name": nm, "file": path, "a": a, "b": b, "cands": cands, "idx": k})
    return defs


# --------------------------------------------------------------------------------------------
# schedules
# --------------------------------------------------------------------------------------------

def uses_table(case):
    """For generated programs: which eligible constants each statement's text mentions."""
    names = {d["name"] for d in case.defs}
    table = {}
    for path, stmts in case.stmts.items():
        rows = []
        for (a, b, kind, text) in stmts:
            toks = {t.lower() for t in IDENT_RE.findall(text)}
            rows.append(toks & names)
        table[path] = rows
    return table


def make_schedules(rng, case, n):
    """n delivery schedules (swarm of styles).  A schedule is a list of (def index, P)."""
    defs = case.defs
    if not defs:
        return []
    out = []
    uses = uses_table(case) if case.stmts else {}
    aimed = []
    if uses:
        by_name = {d["name"]: k for k, d in enumerate(defs)}
        for path, rows in uses.items():
            stmts = case.stmts[path]
            for j, names in enumerate(rows):
                kind = stmts[j][2]
                for nm in sorted(names):       # set order depends on the hash seed: sort
                    k = by_name[nm]
                    d = defs[k]
                    if d["file"] == path and d["idx"] < j:
                        later = [p for p in d["cands"] if p >= stmts[j][1]]
                        if later:
                            aimed.append((k, later, kind in SIZE_KINDS or "%" in stmts[j][3]))
    externs = [k for k, d in enumerate(defs) if d.get("extern")]
    # root constants (defined by literals) ranked by how many other definitions depend on them: delivering
    # a root late leaves all its dependents defined-but-pending at the same time
    dependents = {}
    for d in defs:
        for x in d.get("deps", ()):
            dependents[x] = dependents.get(x, 0) + 1
    roots = sorted((k for k, d in enumerate(defs) if not d.get("deps") and dependents.get(d["name"], 0) >= 2),
                   key=lambda k: (-dependents[defs[k]["name"]], k))
    for _ in range(n):
        style = rng.random()
        sched = {}
        if roots and style < 0.18:
            pick = roots[:1] if rng.random() < 0.5 else roots[:rng.randint(1, min(len(roots), 8))]
            for k in pick:
                sched[k] = defs[k]["cands"][-1]
        elif externs and style < 0.28:
            # an exported constant (visible to other linked files) moved towards the end of its file
            k = rng.choice(externs)
            sched[k] = defs[k]["cands"][-1] if rng.random() < 0.6 else rng.choice(defs[k]["cands"])
        elif style < 0.38:
            k = rng.randrange(len(defs))
            sched[k] = rng.choice(defs[k]["cands"])
        elif style < 0.48:
            for k, d in enumerate(defs):
                if len(sched) >= 12:
                    break
                sched[k] = d["cands"][-1] if rng.random() < 0.7 else rng.choice(d["cands"])
        elif style < 0.74 and aimed:
            pool = [x for x in aimed if x[2]] or aimed
            if rng.random() < 0.3:
                pool = aimed
            for _ in range(rng.randint(1, 3)):
                k, later, _sz = rng.choice(pool)
                sched[k] = later[0] if rng.random() < 0.6 else rng.choice(later)
        elif style < 0.82:
            # alternate links of a chain / every other definition
            start = rng.randint(0, 1)
            for k in range(start, len(defs), 2):
                if len(sched) >= 12:
                    break
                sched[k] = rng.choice(defs[k]["cands"])
        else:
            ks = rng.sample(range(len(defs)), min(len(defs), rng.randint(2, 12)))
            for k in ks:
                sched[k] = rng.choice(defs[k]["cands"])
        out.append(sorted(sched.items()))
    return out


def to_injection(case, sched):
    return {case.defs[k]["name"]: (case.defs[k]["file"], p) for k, p in sched}


def witness_case(case, sched):
    """Really move the delayed definitions in the source text."""
    per_file = {}
    for k, p in sched:
        d = case.defs[k]
        per_file.setdefault(d["file"], []).append((d["a"], d["b"], p))
    texts = {}
    for path, moves in per_file.items():
        texts[path] = lazysched.apply_moves(case.text_of(path), moves)
    return case.with_texts(texts)


# --------------------------------------------------------------------------------------------
# minimisation of a confirmed divergence
# --------------------------------------------------------------------------------------------

def minimise(ns, case, sched, diverges, max_probes=400):
    """Shrink the schedule, then (generated programs) the statements, keeping `diverges(case, sched)`.
    diverges must run everything in pristine children."""
    sched = list(sched)
    if len(sched) > 1:
        sched = shrink_each(sched, lambda s: bool(s) and diverges(case, s), max_probes=24)
    if not case.stmts:
        return case, sched
    # statement removal: units are (file, stmt index) other than the moved definitions and '.end'
    keep_always = set()
    for k, p in sched:
        d = case.defs[k]
        keep_always.add((d["file"], d["idx"]))
    units = []
    for path, stmts in case.stmts.items():
        for j, (a, b, kind, text) in enumerate(stmts):
            if (path, j) in keep_always or kind in ("end", "junk"):
                continue
            units.append((path, j))

    def build(sub):
        sub = set(sub) | keep_always
        texts = {}
        newdefs = {}
        for path, stmts in case.stmts.items():
            pos = 0
            newpos = {}
            parts = []
            for j, (a, b, kind, text) in enumerate(stmts):
                if (path, j) in sub or kind in ("end", "junk"):
                    newpos[j] = pos
                    parts.append(text + "\n")
                    pos += len(text) + 1
            texts[path] = "".join(parts)
            newdefs[path] = (newpos, pos)
        c2 = case.with_texts(texts)
        c2.defs = []
        s2 = []
        for k, p in sched:
            d = case.defs[k]
            newpos, total = newdefs[d["file"]]
            stmts = case.stmts[d["file"]]
            # first surviving statement whose original start >= P
            np_ = total
            for j, (a, b, kind, text) in enumerate(stmts):
                if a >= p and j in newpos:
                    np_ = newpos[j]
                    break
            a2 = newpos[d["idx"]]
            b2 = a2 + (d["b"] - d["a"])
            c2.defs.append({"name": d["name"], "file": d["file"], "a": a2, "b": b2, "cands": [np_], "idx": -1})
            s2.append((len(c2.defs) - 1, max(np_, b2)))
        return c2, s2

    def test(sub):
        c2, s2 = build(sub)
        return diverges(c2, s2)

    try:
        if not test(units):
            return case, sched
    except AssertionError:
        return case, sched
    best = ddmin(units, test, max_probes=max_probes)
    c2, s2 = build(best)
    # drop files the minimised program no longer needs
    src_paths = {p for p, _t in c2.sources} | {c2.defs[k]["file"] for k, _p in s2}
    for path in sorted(c2.files):
        if path in src_paths:
            continue
        trial = Case(c2.sources, {p: b for p, b in c2.files.items() if p != path}, c2.charset, c2.origin)
        trial.defs = c2.defs
        try:
            if diverges(trial, s2):
                c2 = trial
        except Exception:
            pass
    return c2, s2
