"""Worker interpreter: one simulated 'process image' (fixed PYTHONHASHSEED) that stays pristine;
every run is executed in a child forked from it."""
import hashlib
import importlib
import json
import os
import sys
import faulthandler

from . import boot, procs, runner


def main(argv):
    mode = argv[0]
    faulthandler.enable()
    ns = boot.load()
    if mode == "replay":
        prop, path = argv[1], argv[2]
        mod = importlib.import_module(runner.PROPS[prop])
        with open(path) as f:
            rec = runner.unbytes(json.load(f))
        res = procs.fork_call(mod.replay, ns, rec["violation"], timeout=600)
        print(runner.jdump(res), flush=True)
        return 1 if res.get("violations") else 0
    prop, tier, seed, w, jobs, runs, ndup = argv[1], argv[2], int(argv[3]), int(argv[4]), int(argv[5]), int(argv[6]), int(argv[7])
    mod = importlib.import_module(runner.PROPS[prop])
    hashseed = os.environ.get("PYTHONHASHSEED", "random")
    timeout = getattr(mod, "RUN_TIMEOUT", {}).get(tier, 300)
    if hasattr(mod, "prepare"):
        mod.prepare(ns, tier)

    def one(i, dup):
        seed_i = runner.run_seed(seed, prop, i)
        try:
            rec = procs.fork_call(mod.run_one, ns, i, seed_i, tier, timeout=timeout)
        except procs.HarnessError as ex:
            print(runner.jdump({"run": i, "harness_error": str(ex)[-2000:]}), flush=True)
            return
        rec["run"] = i
        rec["hashseed"] = hashseed
        if dup:
            rec = {"run": i, "dup": True, "hashseed": hashseed, "digest": rec["digest"]}
        print(runner.jdump(rec), flush=True)

    for i in range(runs):
        if i % jobs == w:
            one(i, False)
    if jobs > 1:
        for i in range(ndup):
            if (i + 1) % jobs == w:
                one(i, True)
    else:
        for i in range(ndup):
            one(i, True)
    return 0


if __name__ == "__main__":
    sys.exit(main(sys.argv[1:]))
