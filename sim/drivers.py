"""Drivers: execute one operation (a real `main_cli()` call, or a library assembly) inside a World
and return a plain-data observation."""
import re
import sys

import contextlib
import os
import traceback

from .world import World, BudgetExceeded, SimHandlerFault, SIMROOT

ACK_RE = re.compile(r"^File '(.*)' was written in format '([a-z_0-9]+)'$")
FATAL_PREFIXES = ("Could not read source file '", "Source file '", "Could not write to '")
INTERNAL_MARK = "An unexpected internal compiler error happened."
NO_OUTPUT_MARK = "The file was compiled successfully, but no output files were saved"
NO_LISTING_MARK = "No listing file was generated because no output file was specified"

HARNESS_RECURSION_LIMIT = 3000


def _global_state(ns):
    d, r = ns.deferred, ns.reports
    return {
        "depth": d.try_compute.depth,
        "awaiting": len(d.Awaiting.awaiting_stack),
        "handlers": len(r.handle_reports.handlers_stack),
        "reclimit": sys.getrecursionlimit(),
        "n_commands": len(ns.pbuiltins.builtin_commands.container),
        "n_formats": len(ns.formats.file_formats),
        "n_devices": len(ns.devices.DEVICES),
    }


def exc_site(ex):
    """'<Type>@<module>.<function>' of the innermost pdpy11 frame of an exception."""
    site = "?"
    for fs in traceback.extract_tb(ex.__traceback__):
        fn = fs.filename.replace(os.sep, "/")
        if "/pdpy11/" in fn:
            site = "%s.%s" % (os.path.basename(fn)[:-3], fs.name)
    return "%s@%s" % (type(ex).__name__, site)


def _site_from_stderr(stderr):
    """Same signature, recovered from the traceback main_cli prints for an internal error."""
    site, typ = "?", "?"
    lines = stderr.split("\n")
    for i, line in enumerate(lines):
        line = line.strip()
        if line.startswith('File "') and "/pdpy11/" in line.replace(os.sep, "/"):
            try:
                fn = line.split('"')[1]
                func = line.rsplit(" in ", 1)[1]
                site = "%s.%s" % (os.path.basename(fn)[:-3], func)
            except IndexError:
                pass
    for line in reversed(lines):
        if line and not line.startswith(" "):
            typ = line.split(":")[0].split(".")[-1].strip()
            break
    return "%s@%s" % (typ, site)


def _frame_depth():
    f = sys._getframe()
    n = 0
    while f is not None:
        n += 1
        f = f.f_back
    return n


def run_cli(ns, op):
    """op: {argv, files{path:bytes}, dirs[], cwd, readonly[], stdin, faults[], reclimit_extra}"""
    world = World(ns, files=op.get("files"), dirs=op.get("dirs"), cwd=op.get("cwd", SIMROOT + "/w"),
                  readonly=op.get("readonly", ()), faults=op.get("faults", ()), stdin=op.get("stdin"),
                  force_budget=op.get("force_budget", 2_000_000))
    before = dict(world.files)
    old_limit = sys.getrecursionlimit()
    status = None
    with world:
        sys.argv = ["pdpy11"] + list(op["argv"])
        try:
            if op.get("reclimit_extra") is not None:
                sys.setrecursionlimit(_frame_depth() + op["reclimit_extra"])
            else:
                sys.setrecursionlimit(HARNESS_RECURSION_LIMIT)
            try:
                ns.cli.main_cli()
                status = 0
            except SystemExit as ex:
                code = ex.code
                if code is None:
                    status = 0
                elif isinstance(code, int):
                    status = code
                else:
                    status = "exit:%r" % (code,)
            except BudgetExceeded:
                status = "BUDGET"
            except BaseException as ex:  # escaping exception = abnormal termination
                status = "uncaught:" + type(ex).__name__
        finally:
            sys.setrecursionlimit(old_limit)
    return observe(ns, world, before, status)


def observe(ns, world, before, status, extra=None):
    stderr = world.stderr.getvalue().decode("utf-8", "replace")
    stdout = world.stdout.getvalue()
    acks, fatals = [], []
    for line in stderr.split("\n"):
        m = ACK_RE.match(line)
        if m:
            acks.append((m.group(1), m.group(2)))
        elif line.startswith(FATAL_PREFIXES):
            fatals.append(line)
    after = world.files
    changed = {}
    for p in set(before) | set(after):
        if before.get(p) != after.get(p):
            changed[p] = after.get(p)
    obs = {
        "status": status,
        "stdout": stdout,
        "stderr": stderr,
        "events": world.events,
        "diags": [(sev, ident, spans) for (_s, sev, ident, spans) in world.diags],
        "acks": acks,
        "fatals": fatals,
        "internal_error": INTERNAL_MARK in stderr,
        "no_output_note": NO_OUTPUT_MARK in stderr,
        "no_listing_note": NO_LISTING_MARK in stderr,
        "fs_after": dict(after),
        "changed": changed,
        "created": list(world.created),
        "truncated": list(world.truncated),
        "torn": sorted(world.torn),
        "closed_ok": sorted(world.closed_ok),
        "seam_log": world.seam_log,
        "fired": world.fired,
        "natural_io": world.natural_io,
        "state_probe": world.state_probe,
        "forces": world.forces,
        "gstate": _global_state(ns),
        "exc_site": None,
    }
    if obs["internal_error"]:
        obs["exc_site"] = _site_from_stderr(stderr)
    if extra:
        obs.update(extra)
    return obs


def run_lib(ns, op):
    """Library-mode assembly: parse + Compiler inside handle_reports(handler).

    op: {sources[(path, text)], charset, files, dirs, cwd, faults, handler: 'collect'|'raise',
         handler_fault_at: k, emit: bool, reclimit_extra}
    """
    world = World(ns, files=op.get("files"), dirs=op.get("dirs"), cwd=op.get("cwd", SIMROOT + "/w"),
                  readonly=op.get("readonly", ()), faults=op.get("faults", ()),
                  force_budget=op.get("force_budget", 2_000_000))
    before = dict(world.files)
    old_limit = sys.getrecursionlimit()
    reports = ns.reports
    seen = []
    k = op.get("handler_fault_at")

    def handler(priority, identifier, *reps):
        seen.append(identifier)
        if k is not None and len(seen) - 1 == k:
            world.event("fail", "<handler>", "raise:injected")
            world.fired.append(("handler", k, "RAISE", "<handler>"))
            d = ns.deferred
            world.state_probe.append((d.try_compute.depth, len(d.Awaiting.awaiting_stack)))
            raise SimHandlerFault(identifier)

    status = None
    result = None
    site = None
    inj = contextlib.nullcontext()
    if op.get("schedule") is not None:
        from .lazysched import Injection
        inj = Injection(ns, op["schedule"])
    mon = contextlib.nullcontext()
    if op.get("trace"):
        from .tracemon import TraceMonitor
        mon = TraceMonitor(ns)
    with world, inj, mon:
        sys.argv = ["pdpy11"]
        try:
            if op.get("reclimit_extra") is not None:
                sys.setrecursionlimit(_frame_depth() + op["reclimit_extra"])
            else:
                sys.setrecursionlimit(HARNESS_RECURSION_LIMIT)
            try:
                with reports.handle_reports(handler):
                    parsed = [ns.parser.parse(path, text) for path, text in op["sources"]]
                    comp = ns.compiler.Compiler(output_charset=op.get("charset", "bk"))
                    base, code = comp.compile_and_link_files(parsed)
                    result = (base, bytes(code) if isinstance(code, (bytes, bytearray)) else repr(type(code)))
                    if op.get("emit"):
                        comp.emit_files(base, code)
                    if op.get("listing"):
                        result = result + (comp.generate_listing(),)
                status = "ok"
            except reports.UnrecoverableError:
                status = "failed"
                result = None
            except BudgetExceeded:
                status = "BUDGET"
                result = None
            except BaseException as ex:
                status = "uncaught:" + type(ex).__name__
                site = exc_site(ex)
                result = None
        finally:
            sys.setrecursionlimit(old_limit)
    extra = {"result": result}
    if site:
        extra["exc_site"] = site
    if op.get("schedule") is not None:
        extra["inj"] = inj.stats()
    if op.get("trace"):
        extra["trace"] = mon.report(result, status, world)
    return observe(ns, world, before, status, extra)


def run_op(ns, op):
    if op.get("kind", "cli") == "cli":
        return run_cli(ns, op)
    return run_lib(ns, op)
