"""Seeded workload generator: pdpy11 programs (1-3 linked files, include trees, inserted blobs),
output selectors, CLI argument vectors and planted program faults.

Everything is drawn from the one `random.Random` handed in, so a program is a pure function of its
seed.  The generator keeps a ledger (which symbol is defined where, with which value if it can
know it) that oracles use for *diversity and bookkeeping only*: no verdict ever trusts the ledger
about what pdpy11 should do with a statement.
"""
import os

from .world import SIMROOT

REGS = ["r0", "r1", "r2", "r3", "r4", "r5"]
ZERO_OP = ["nop", "halt", "wait", "rti", "bpt", "iot", "reset", "rtt", "clc", "clv", "clz", "cln",
           "ccc", "sec", "sev", "sez", "sen", "scc", "ret", "return", "cfcc", "setf", "seti", "setd", "setl"]
ONE_OP = ["clr", "com", "inc", "dec", "neg", "adc", "sbc", "tst", "ror", "rol", "asr", "asl", "swab",
          "sxt", "clrb", "comb", "incb", "decb", "negb", "adcb", "sbcb", "tstb", "rorb", "rolb",
          "asrb", "aslb", "mtps", "mfps", "jmp", "call", "push", "pop"]
TWO_OP = ["mov", "movb", "cmp", "cmpb", "bit", "bitb", "bic", "bicb", "bis", "bisb", "add", "sub"]
REG_SRC = ["mul", "div", "ash", "ashc"]          # insn src, reg
REG_DST = ["jsr", "xor"]                         # insn reg, dst
BRANCHES = ["br", "bne", "beq", "bge", "blt", "bgt", "ble", "bpl", "bmi", "bhi", "blos", "bvc",
            "bvs", "bcc", "bhis", "bcs", "blo"]
FP_SRC_AC = ["ldf", "addf", "subf", "mulf", "divf", "cmpf", "ldd", "addd", "modf"]   # insn src, ac
FP_AC_DST = ["stf", "std"]                                                             # insn ac, dst
FP_ONE = ["clrf", "tstf", "absf", "negf"]
WORDS = ["alpha", "beta", "gamma", "delta", "tmp", "cnt", "ptr", "buf", "val", "idx", "len", "pos",
         "scr", "key", "tab", "lim", "org", "fin", "loop", "data"]
STR_CHARS = "ABCDEFGHIJKLMNOPQRSTUVWXYZabcdefghijklmnopqrstuvwxyz0123456789 .,!?*-+=_"
R50_CHARS = " ABCDEFGHIJKLMNOPQRSTUVWXYZ$.%0123456789"

# self-address probe: '.' is the address of the statement, i.e. of the first magic word
DOT_PROBE = ".word 125252, 52525, ."
DOT_MAGIC = b"\xaa\xaa\x55\x55"

CLASS_RANGE = {
    "reg": (0, 7),
    "rep": (0, 5),
    "small": (0, 40),
    "align": (1, 16),
    "r50": (0, 39),
    "byte": (0, 255),
    "sbyte": (-255, 255),
    "word": (-32768, 65535),
    "big": (-(2 ** 31) + 1, 2 ** 31 - 1),
}


class Const:
    __slots__ = ("name", "value", "text", "deps", "positional", "extern", "file", "cls", "nonlinear")

    def __init__(self, name, value, text, deps, positional, extern, file, cls, nonlinear):
        self.name, self.value, self.text, self.deps = name, value, text, deps
        self.positional, self.extern, self.file, self.cls, self.nonlinear = positional, extern, file, cls, nonlinear


class Stmt:
    """One top-level statement of a file = one chunk of text (usually one line)."""
    __slots__ = ("text", "kind", "info")

    def __init__(self, text, kind, info=None):
        self.text, self.kind, self.info = text, kind, info or {}

    def __repr__(self):
        return "Stmt(%r,%s)" % (self.text, self.kind)


class GFile:
    def __init__(self, path, role):
        self.path = path
        self.role = role            # 'main' | 'include'
        self.stmts = []
        self.consts = {}            # name -> Const  (defined in this file)
        self.labels = []            # ordinary label names defined in this file, in order
        self.markers = {}           # label -> marker bytes that follow it
        self.externs = []           # names this file exports
        self.probe_order = []       # symbols in the .dword probe table, in order
        self.probe_header = None    # unique 8-byte marker in front of the probe table
        self.front_order = []       # the same symbols probed at the START of the file (forward references)
        self.front_header = None
        self.has_end = False

    def text(self):
        return "".join(s.text + "\n" for s in self.stmts)

    def layout(self):
        """[(start, end)] character offsets of each statement in text(); end includes the newline."""
        out = []
        pos = 0
        for s in self.stmts:
            n = len(s.text) + 1
            out.append((pos, pos + n))
            pos += n
        return out


class Program:
    def __init__(self):
        self.files = []             # GFile list: mains first (link order), then includes
        self.mains = []             # GFile list in link order
        self.blobs = {}             # path -> bytes
        self.extra_files = {}       # other files on the simulated disk
        self.base = None            # link base the generator asked for (None = default)
        self.outputs = []           # dicts describing make_* directives in source order of compilation
        self.planted = []           # tags of planted program faults
        self.features = set()
        self.charset = "bk"
        self.n_includes = 0
        self.link_pos = None
        self.many_files = 0

    def all_files(self):
        d = {f.path: f.text().encode("utf-8") for f in self.files}
        d.update(self.blobs)
        d.update(self.extra_files)
        return d


def num(rng, v):
    """Render integer v in one of pdpy11's literal syntaxes (default radix is 8!)."""
    if v < 0:
        return "-" + num(rng, -v)
    k = rng.random()
    if k < 0.45:
        return "%o" % v
    if k < 0.75:
        return "%d." % v
    if k < 0.9:
        return "0x%x" % v
    if k < 0.95:
        return "0b" + bin(v)[2:]
    return rng.choice(["^O%o" % v, "^D%d" % v, "^X%x" % v, "0o%o" % v])


def quote_for(rng, s):
    """A string delimiter that does not occur in s."""
    return rng.choice([q for q in ('"', "'", "/") if q not in s])


def paren(rng, text):
    # '<a >> 1>' would be ambiguous: angle brackets only around text without < or >
    if "<" in text or ">" in text:
        return "(%s)" % text
    return ("(%s)" if rng.random() < 0.5 else "<%s>") % text


def angle(text):
    """Grouping for operand positions (where a leading '(' could read as register-deferred)."""
    if "<" in text or ">" in text:
        return "(%s)" % text
    return "<%s>" % text


class Expr:
    __slots__ = ("text", "value", "deps", "positional", "nonlinear", "atomic")

    def __init__(self, text, value, deps=(), positional=False, nonlinear=0, atomic=True):
        self.text, self.value, self.deps = text, value, frozenset(deps)
        self.positional, self.nonlinear, self.atomic = positional, nonlinear, atomic

    def grouped(self, rng):
        return self.text if self.atomic else paren(rng, self.text)


def _apply(op, a, b):
    try:
        if op == "+":
            return a + b
        if op == "-":
            return a - b
        if op == "*":
            return a * b
        if op == "/":
            return a // b if b != 0 else None
        if op == "%":
            return a % b if b != 0 else None
        if op == "<<":
            return a * 2 ** b if 0 <= b <= 12 else None
        if op == ">>":
            return a >> b if 0 <= b <= 20 else None
        if op == "_":
            if not -12 <= b <= 12:
                return None
            return a << b if b >= 0 else a >> -b
        if op == "&":
            return a & b
        if op == "^":
            return a ^ b
        if op in ("|", "!"):
            return a | b
    except (OverflowError, ValueError):
        return None
    return None


NONLINEAR_OPS = ("*", "/", "%", "<<", ">>", "_", "&", "^", "|", "!")


class FileGen:
    """Generates one source file."""

    def __init__(self, g, gfile, idx, profile):
        self.g = g
        self.rng = g.rng
        self.f = gfile
        self.idx = idx
        self.p = profile
        self.even = True
        self.local_ctr = 0
        self.label_ctr = 0
        self.const_ctr = 0
        self.planned_consts = []     # Const objects, to be placed
        self.visible = {}            # name -> Const usable in expressions of this file (own + imported)
        self.label_names = []        # all ordinary labels planned for this file
        self.imported_labels = []    # labels exported by other files
        self.in_repeat = False
        self.skip_ok = False
        self.budget = [6]

    # ---- names -------------------------------------------------------------------
    def new_name(self, kind):
        rng = self.rng
        self.const_ctr += 1
        stem = rng.choice(WORDS)
        style = rng.random()
        if style < 0.6:
            name = "%s%d%s%d" % (stem, self.idx, kind, self.const_ctr)
        elif style < 0.8:
            name = "%s_%d%s%d" % (stem.upper(), self.idx, kind, self.const_ctr)
        elif style < 0.9:
            name = "%s.%d%s%d" % (stem, self.idx, kind, self.const_ctr)
        else:
            name = "%s$%d%s%d" % (stem, self.idx, kind, self.const_ctr)
        return name

    # ---- expressions -------------------------------------------------------------
    def lit(self, v):
        return Expr(num(self.rng, v), v, atomic=v >= 0)

    def consts_in(self, cls, allow_positional=True):
        lo, hi = CLASS_RANGE[cls]
        out = []
        for c in self.visible.values():
            if c.value is None:
                if cls in ("word", "big") and allow_positional:
                    out.append(c)
                continue
            if lo <= c.value <= hi and (allow_positional or not c.positional):
                out.append(c)
        return out

    def cexpr(self, c):
        return Expr(c.name, c.value, {c.name} | set(c.deps), c.positional, c.nonlinear)

    def expr(self, cls, depth=0, allow_positional=True, want_symbolic=None):
        """Expression whose value (as far as the generator can tell) lies in class `cls`."""
        rng = self.rng
        lo, hi = CLASS_RANGE[cls]
        if want_symbolic is None:
            want_symbolic = rng.random() < self.p["symbolic"]
        for _ in range(6):
            form = rng.random()
            cands = self.consts_in(cls, allow_positional) if want_symbolic else []
            if not want_symbolic or (not cands and not self.visible):
                v = self._rand_value(lo, hi)
                e = self.lit(v)
            elif form < 0.45 and cands:
                e = self.cexpr(rng.choice(cands))
            elif form < 0.7 and cands:
                c = rng.choice(cands)
                if c.value is None:
                    e = self.cexpr(c)
                else:
                    k = rng.randint(0, 9)
                    op = rng.choice("+-")
                    v = c.value + k if op == "+" else c.value - k
                    e = Expr("%s %s %s" % (c.name, op, num(rng, k)), v, {c.name} | set(c.deps), c.positional,
                             c.nonlinear, atomic=False)
            else:
                e = self._binary(cls, depth, allow_positional)
            if e is None:
                continue
            if e.value is None or lo <= e.value <= hi:
                if rng.random() < 0.1:
                    e = Expr(paren(rng, e.text), e.value, e.deps, e.positional, e.nonlinear, True)
                return e
        return self.lit(self._rand_value(lo, hi))

    def _rand_value(self, lo, hi):
        rng = self.rng
        k = rng.random()
        if k < 0.15:
            return rng.choice([lo, hi, min(hi, max(lo, 0)), min(hi, max(lo, 1))])
        if k < 0.6:
            return rng.randint(max(lo, -8), min(hi, 16)) if max(lo, -8) <= min(hi, 16) else rng.randint(lo, hi)
        return rng.randint(lo, hi)

    def _operand(self, depth, allow_positional):
        rng = self.rng
        pool = [c for c in self.visible.values() if c.value is not None and (allow_positional or not c.positional)
                and c.nonlinear < 28]
        if pool and rng.random() < 0.7:
            return self.cexpr(rng.choice(pool))
        if depth < 2 and rng.random() < 0.15:
            e = self._binary("big", depth + 1, allow_positional)
            if e is not None and e.value is not None:
                return e
        return self.lit(rng.choice([0, 1, 2, 3, 4, 7, 8, 10, 16, 100, 255, 256, 1000, rng.randint(0, 70000)]))

    def _sum_product(self, allow_positional):
        """(A + B [+ k]) * C and friends: a sum of several symbols combined with another symbol through
        a non-linear operator (the distributive paths of the lazy arithmetic)."""
        rng = self.rng
        pool = [c for c in self.visible.values() if c.value is not None and (allow_positional or not c.positional)
                and c.nonlinear < 26 and abs(c.value) < 4096]
        if len(pool) < 3:
            return None
        derived = [c for c in pool if c.deps]      # defined through other symbols: can be pending all at once
        a, b, c = rng.sample(derived if len(derived) >= 3 and rng.random() < 0.8 else pool, 3)
        k = rng.randint(0, 5)
        s_text = "%s %s %s" % (a.name, rng.choice("+-"), b.name)
        s_val = a.value + b.value if " + " in s_text else a.value - b.value
        if k and rng.random() < 0.5:
            s_text += " + " + num(rng, k)
            s_val += k
        op = rng.choice(["*", "*", "*", "/", "%", "&", "|"])
        left = rng.random() < 0.6
        v = _apply(op, s_val, c.value) if left else _apply(op, c.value, s_val)
        if v is None or abs(v) >= 2 ** 31:
            return None
        text = ("(%s) %s %s" % (s_text, op, c.name)) if left else ("%s %s (%s)" % (c.name, op, s_text))
        deps = {a.name, b.name, c.name} | set(a.deps) | set(b.deps) | set(c.deps)
        return Expr(text, v, deps, a.positional or b.positional or c.positional,
                    max(a.nonlinear, b.nonlinear, c.nonlinear) + 1, atomic=False)

    def _binary(self, cls, depth, allow_positional):
        rng = self.rng
        if rng.random() < self.p.get("sumprod", 0.12):
            e = self._sum_product(allow_positional)
            if e is not None:
                return e
        a = self._operand(depth, allow_positional)
        b = self._operand(depth, allow_positional)
        op = rng.choice(["+", "-", "*", "/", "%", "<<", ">>", "_", "&", "^", "|", "!", "+", "-"])
        if rng.random() < 0.08:
            # unary forms
            u = rng.choice(["-", "~", "^C", "+"])
            v = {"-": -a.value, "~": ~a.value, "^C": ~a.value, "+": a.value}[u]
            return Expr("%s%s" % (u, paren(rng, a.text) if not a.atomic or u == "^C" else a.text), v, a.deps,
                        a.positional, a.nonlinear + (1 if u in ("~", "^C") else 0), atomic=False)
        if op in ("<<", ">>", "_"):
            small = [c for c in self.visible.values() if c.value is not None and 0 <= c.value <= 6
                     and (allow_positional or not c.positional)]
            if small and rng.random() < 0.4:
                b = self.cexpr(rng.choice(small))
            else:
                b = self.lit(rng.randint(0, 6))
        v = _apply(op, a.value, b.value)
        if v is None or abs(v) >= 2 ** 31:
            return None
        nl = max(a.nonlinear, b.nonlinear) + (1 if op in NONLINEAR_OPS else 0)
        return Expr("%s %s %s" % (a.grouped(rng), op, b.grouped(rng)), v, a.deps | b.deps,
                    a.positional or b.positional, nl, atomic=False)

    # ---- operands ----------------------------------------------------------------
    def reg(self):
        rng = self.rng
        if rng.random() < self.p["pct_reg"]:
            e = self.expr("reg", allow_positional=False)
            return "%" + (e.text if e.atomic else angle(e.text))
        return rng.choice(REGS + ["sp"] if rng.random() < 0.9 else ["r6", "r7", "pc"])

    def value_operand(self):
        """#imm / @#abs / relative / index using a word-class expression or a label."""
        rng = self.rng
        if self.all_labels() and rng.random() < 0.35:
            lab = rng.choice(self.all_labels())
            if rng.random() < 0.25:
                return "%s%s%s" % (lab, rng.choice("+-"), num(rng, rng.randint(0, 8) * 2))
            return lab
        e = self.expr("word")
        return e.text if e.atomic else angle(e.text)

    def all_labels(self):
        return self.label_names + self.imported_labels

    def mode_operand(self, dst=False):
        rng = self.rng
        k = rng.random()
        r = self.reg()
        if k < 0.25:
            return r
        if k < 0.33:
            return "(%s)" % r
        if k < 0.41:
            return "(%s)+" % r
        if k < 0.49:
            return "-(%s)" % r
        if k < 0.53:
            return "@(%s)+" % r
        if k < 0.57:
            return "@-(%s)" % r
        v = self.value_operand()
        if k < 0.67:
            return "%s(%s)" % (v, r)
        if k < 0.71:
            return "@%s(%s)" % (v, r)
        if k < 0.83 and not dst:
            return "#" + v
        if k < 0.91:
            return "@#" + v
        if k < 0.97:
            return v
        return "@" + v

    def insn(self):
        rng = self.rng
        k = rng.random()
        if k < 0.1:
            return rng.choice(ZERO_OP)
        if k < 0.35:
            return "%s %s" % (rng.choice(ONE_OP), self.mode_operand(dst=True))
        if k < 0.7:
            return "%s %s, %s" % (rng.choice(TWO_OP), self.mode_operand(), self.mode_operand(dst=True))
        if k < 0.76:
            return "%s %s, %s" % (rng.choice(REG_SRC), self.mode_operand(), self.reg())
        if k < 0.82:
            return "%s %s, %s" % (rng.choice(REG_DST), self.reg(), self.mode_operand(dst=True))
        if k < 0.84:
            e = self.expr("byte")
            return "%s %s" % (rng.choice(["emt", "trap"]), e.text)
        if k < 0.86:
            # branch relative to '.', distance possibly a (late) constant: 0 = onto itself, 2 = next word
            evens = [c for c in self.visible.values() if c.value in (0, 2) and not c.positional]
            d = rng.choice(evens).name if evens and rng.random() < 0.6 else rng.choice(["0", "2"])
            return "%s . + %s" % (rng.choice(BRANCHES), d)
        if k < 0.88:
            e = self.expr("small", allow_positional=False)
            return "mark %s" % e.text
        if k < 0.90:
            return "rts %s" % self.reg()
        if k < 0.93:
            return "%s %s, ac%d" % (rng.choice(FP_SRC_AC), self._fp_operand(), rng.randint(0, 3))
        if k < 0.96:
            return "%s ac%d, %s" % (rng.choice(FP_AC_DST), rng.randint(0, 3), self._fp_operand())
        return "%s %s" % (rng.choice(FP_ONE), self._fp_operand())

    def _fp_operand(self):
        rng = self.rng
        if rng.random() < 0.3:
            return "ac%d" % rng.randint(0, 5)
        while True:
            m = self.mode_operand(dst=True)
            # a bare register is a (warned) accumulator alias: keep to modes that are unambiguous
            if not (m in REGS or m in ("sp", "pc", "r6", "r7") or m.startswith("%")):
                return m

    # ---- statements ---------------------------------------------------------------
    def flip(self, nbytes):
        """Account for nbytes (None = unknown) more bytes of output."""
        if nbytes is None or self.even is None:
            self.even = None
        elif nbytes % 2:
            self.even = not self.even

    def addr_dep_ok(self, n=1):
        """May we emit n more statements whose *content* depends on the absolute address?
        (While the link base is unknown each of them doubles pdpy11's work: see DESIGN 8.3.)"""
        return self.budget[0] >= n

    def need_even(self, out):
        rng = self.rng
        if self.even is True:
            return
        if self.even is False and (rng.random() < 0.7 or not self.addr_dep_ok()):
            out.append(Stmt(".byte " + num(rng, rng.randint(0, 255)), "pad"))
        else:
            out.append(Stmt(".even", "even"))
            self.budget[0] -= 1
        self.even = True

    def string_lit(self, maxlen=12):
        rng = self.rng
        n = rng.randint(1, maxlen)
        s = "".join(rng.choice(STR_CHARS) for _ in range(n))
        q = rng.choice(['"', "'", "/"])
        if q in s:
            s = s.replace(q, "x")
        return q + s + q, s

    def plain_expr(self, cls):
        """Expression without '<' or '>' in its text (for use inside <...> string chunks)."""
        for _ in range(4):
            e = self.expr(cls, allow_positional=False)
            if "<" not in e.text and ">" not in e.text:
                return e
        lo, hi = CLASS_RANGE[cls]
        return self.lit(self._rand_value(lo, hi))

    def ascii_stmt(self):
        rng = self.rng
        parts = []
        nbytes = 0
        for _ in range(rng.randint(1, 3)):
            if rng.random() < 0.3:
                e = self.plain_expr("byte")
                parts.append("<%s>" % e.text)
                nbytes += 1
            else:
                lit, s = self.string_lit()
                parts.append(lit)
                nbytes += len(s)
        if all(p.startswith("<") for p in parts) and rng.random() < 0.5:
            lit, s = self.string_lit()
            parts.insert(0, lit)
            nbytes += len(s)
        kw = rng.choice([".ascii", ".asciz"])
        return "%s %s" % (kw, "".join(parts)), nbytes + (kw == ".asciz")

    def rad50_stmt(self):
        rng = self.rng
        parts = []
        for _ in range(rng.randint(1, 2)):
            if rng.random() < 0.3:
                e = self.plain_expr("r50")
                parts.append("<%s>" % e.text)
            else:
                s = "".join(rng.choice(R50_CHARS) for _ in range(rng.randint(0, 7)))
                parts.append("/%s/" % s)
        if parts[0].startswith("<"):
            parts.insert(0, "/A/")
        return ".rad50 " + "".join(parts)

    def data_stmt(self, out):
        rng = self.rng
        k = rng.random()
        if rng.random() < 0.04:
            # operand-less data directives: legal (a warning), sizes 1 / 2 / 4
            kw = rng.choice([".byte", ".word", ".dword", ".dw", ".db"])
            if kw in (".byte", ".db"):
                out.append(Stmt(kw, "byte0"))
                self.flip(1)
            else:
                self.need_even(out)
                out.append(Stmt(kw, "word0"))
            return
        if k < 0.2:
            n = rng.randint(1, 4)
            out.append(Stmt(".byte " + ", ".join(self.expr("sbyte").text for _ in range(n)), "byte"))
            self.flip(n)
        elif k < 0.45:
            self.need_even(out)
            n = rng.randint(1, 4)
            items = []
            for _ in range(n):
                k2 = rng.random()
                if self.all_labels() and k2 < 0.3:
                    items.append(rng.choice(self.all_labels()))
                elif k2 < 0.38:
                    # '.' = address of this statement, possibly combined with a (late) constant
                    e = self.expr("small", allow_positional=False)
                    items.append(rng.choice([".", ". + %s" % (e.text if e.atomic else angle(e.text)),
                                             "<. - %s>" % (e.text if e.atomic else "(%s)" % e.text) if "<" not in e.text and ">" not in e.text else "."]))
                else:
                    items.append(self.expr("word").text)
            kw = rng.choice([".word", ".word", ".dw"]) if rng.random() < 0.8 else None
            if kw is None:
                # implicit word list: must not start with something that parses as an instruction name
                first = items[0]
                # ... nor with '<' or a quote, which would continue a string operand of the line before
                if not first[0].isdigit():
                    items.insert(0, num(rng, rng.randint(0, 9)).lstrip("^"))
                    if not items[0][0].isdigit():
                        items[0] = "0"
            out.append(Stmt(("%s " % kw if kw else "") + ", ".join(items), "word"))
        elif k < 0.52:
            self.need_even(out)
            n = rng.randint(1, 2)
            out.append(Stmt(".dword " + ", ".join(self.expr("big").text for _ in range(n)), "dword"))
        elif k < 0.535 and self.addr_dep_ok(1):
            # non-ASCII text: one byte per letter in bk/koi8-r/cp866, two in utf-8 -> parity unknown here
            n = rng.randint(1, 6)
            word = "".join(rng.choice("АБВГДЕЖЗИКЛМНОПРСТУФабвгдежзиклмн") for _ in range(n))
            chunk = ""
            if rng.random() < 0.5:
                chunk = "<%s>" % self.plain_expr("byte").text        # possibly a constant defined later
            out.append(Stmt('%s "%s"%s' % (rng.choice([".ascii", ".asciz"]), word, chunk), "ascii-cyr"))
            self.even = None
        elif k < 0.64:
            text, nbytes = self.ascii_stmt()
            out.append(Stmt(text, "ascii"))
            self.flip(nbytes)
        elif k < 0.70:
            self.need_even(out)
            out.append(Stmt(self.rad50_stmt(), "rad50"))
        elif k < 0.72 and len(self.f.labels) >= 2 and self.addr_dep_ok(1) and not self.in_repeat:
            # a size that is a difference of two labels defined above (the unknown base cancels out)
            i = rng.randrange(0, len(self.f.labels) - 1)
            j = rng.randrange(i + 1, len(self.f.labels))
            out.append(Stmt(".blkb %s - %s" % (self.f.labels[j], self.f.labels[i]), "blkb-labdiff"))
            self.even = None
        elif k < 0.78:
            e = self.expr("small", allow_positional=False)
            out.append(Stmt(".blkb " + e.text, "blkb", {"deps": e.deps}))
            self.flip(e.value)
        elif k < 0.84:
            self.need_even(out)
            e = self.expr("small", allow_positional=False)
            out.append(Stmt(".blkw " + e.text, "blkw", {"deps": e.deps}))
        elif k < 0.88 and self.addr_dep_ok():
            out.append(Stmt(".even", "even"))
            self.budget[0] -= 1
            self.even = True
        elif k < 0.90 and self.addr_dep_ok():
            out.append(Stmt(".odd", "odd"))
            self.budget[0] -= 1
            self.even = False
        elif k < 0.95 and self.addr_dep_ok(2):
            e = self.expr("align", allow_positional=False)
            out.append(Stmt(".align " + e.text, "align", {"deps": e.deps}))
            self.budget[0] -= 1
            self.even = None
        elif self.skip_ok and self.addr_dep_ok():
            e = self.expr("small", allow_positional=False)
            out.append(Stmt(". = . + " + (e.text if e.atomic else angle(e.text)), "skip", {"deps": e.deps}))
            self.budget[0] -= 1
            self.flip(e.value)
        else:
            v = rng.randint(0, 9)
            out.append(Stmt(".blkb " + num(rng, v), "blkb"))
            self.flip(v)

    def code_stmt(self, out):
        self.need_even(out)
        if self.rng.random() < 0.04:
            out.append(Stmt(DOT_PROBE, "dotprobe"))
            self.g.count_dot_probes(1)
            return
        out.append(Stmt(self.insn(), "insn"))

    def branch_group(self, out):
        """A short forward or backward branch over a few small statements, with a local label."""
        rng = self.rng
        self.need_even(out)
        self.local_ctr += 1
        lab = "%d%s" % (self.local_ctr, rng.choice(["", "$"]))
        body = []
        for _ in range(rng.randint(0, 3)):
            body.append(Stmt(self.insn(), "insn"))
        if rng.random() < 0.5:
            out.append(Stmt("%s %s" % (rng.choice(BRANCHES), lab), "branch"))
            out.extend(body)
            out.append(Stmt("%s:" % lab, "llabel"))
        else:
            out.append(Stmt("%s:" % lab, "llabel"))
            out.extend(body)
            if rng.random() < 0.4:
                out.append(Stmt("sob %s, %s" % (self.reg(), lab), "branch"))
            else:
                out.append(Stmt("%s %s" % (rng.choice(BRANCHES), lab), "branch"))

    def repeat_stmt(self, out):
        rng = self.rng
        self.need_even(out)
        e = self.expr("rep", allow_positional=False)
        body = []
        saved = self.in_repeat
        self.in_repeat = True
        nprobes = 0
        for _ in range(rng.randint(1, 3)):
            k = rng.random()
            if k < 0.15:
                # self-address probe: two magic words followed by '.', which must hold its own address
                body.append(DOT_PROBE)
                nprobes += 1
            elif k < 0.5:
                body.append(self.simple_insn())
            elif k < 0.75:
                body.append(".word " + ", ".join(self.expr("word", allow_positional=False).text
                                                 for _ in range(rng.randint(1, 2))))
            elif k < 0.9:
                body.append(".byte %s, %s" % (self.expr("sbyte", allow_positional=False).text,
                                              self.expr("sbyte", allow_positional=False).text))
            else:
                body.append(".blkw " + self.expr("rep", allow_positional=False).text)
        self.in_repeat = saved
        sep = rng.choice(["\n", "\n\t", " \n "])
        text = ".repeat %s {%s%s%s}" % (e.text if e.atomic else angle(e.text), sep, sep.join(body), sep)
        out.append(Stmt(text, "repeat", {"deps": e.deps}))
        if nprobes:
            self.g.count_dot_probes(None if e.value is None else nprobes * e.value)

    def simple_insn(self):
        """Instruction without label references or complex index expressions (safe in .repeat)."""
        rng = self.rng
        k = rng.random()
        if k < 0.2:
            return rng.choice(ZERO_OP)
        r1, r2 = rng.choice(REGS), rng.choice(REGS)
        if k < 0.5:
            return "%s %s" % (rng.choice(ONE_OP[:20]), rng.choice([r1, "(%s)" % r1, "(%s)+" % r1, "-(%s)" % r1]))
        e = self.expr("word", allow_positional=False)
        v = e.text if e.atomic else angle(e.text)
        if self.all_labels() and rng.random() < 0.25:
            v = rng.choice(self.all_labels())       # a label (possibly defined after the loop)
        if k < 0.75:
            return "%s #%s, %s" % (rng.choice(TWO_OP), v, r2)
        return "%s %s, @#%s" % (rng.choice(TWO_OP), r1, v)

    def label_stmt(self, out, name, extern=False):
        rng = self.rng
        self.need_even(out)
        marker = "L%03d" % (self.g.marker_ctr % 1000)
        self.g.marker_ctr += 1
        self.f.markers[name] = marker.encode()
        colon = "::" if extern else ":"
        if rng.random() < 0.3:
            out.append(Stmt('%s%s .ascii "%s"' % (name, colon, marker), "label", {"name": name}))
        else:
            out.append(Stmt("%s%s" % (name, colon), "label", {"name": name}))
            out.append(Stmt('.ascii "%s"' % marker, "marker"))
        self.f.labels.append(name)


DEFAULT_PROFILE = {
    "n_stmts": (4, 40),
    "n_consts": (0, 10),
    "n_labels": (0, 6),
    "symbolic": 0.6,
    "pct_reg": 0.12,
    "w_code": 5, "w_data": 5, "w_branch": 1.5, "w_repeat": 0.8,
    "include": 0.35, "insert": 0.3, "multi": 0.4,
    "chain": 0.15,
    "link": 0.6,
    "extern": 0.5,
    "end": 0.08,
    "probe": 0.7,
}


class Gen:
    def __init__(self, rng, profile=None):
        self.rng = rng
        self.p = dict(DEFAULT_PROFILE)
        if profile:
            self.p.update(profile)
        self.marker_ctr = rng.randint(0, 999)
        self.file_ctr = 0
        self.dot_probes = 0          # how many self-address probes the image must contain (None = unknown)

    def count_dot_probes(self, n):
        if n is None or self.dot_probes is None:
            self.dot_probes = None
        else:
            self.dot_probes += n

    # ---------------------------------------------------------------------------------
    def program(self, cwd=SIMROOT + "/w"):
        rng = self.rng
        prog = Program()
        prog.cwd = cwd
        n_main = 1
        if rng.random() < self.p["multi"]:
            n_main = rng.choice([2, 2, 3])
        srcdirs = [cwd, cwd + "/src", cwd + "/src/lib", SIMROOT + "/other"]
        exported_consts = {}    # name -> Const exported by earlier/later files
        exported_labels = []
        plans = []
        # plan exports first so that any file may reference any other file's exports
        for i in range(n_main):
            d = rng.choice(srcdirs[:2]) if rng.random() < 0.8 else rng.choice(srcdirs)
            stem = rng.choice(["main", "prog", "game", "boot", "Loader", "tape", "x"]) + str(i)
            ext = rng.choice([".mac", ".mac", ".mac", ".MAC", ".Mac", ".asm", "", ".s"])
            gf = GFile("%s/%s%s" % (d, stem, ext), "main")
            prog.files.append(gf)
            prog.mains.append(gf)
            plans.append(self._plan_file(gf, i))
        if n_main > 1 and rng.random() < self.p["extern"]:
            for i, plan in enumerate(plans):
                for c in plan["consts"]:
                    if c.value is not None and not c.positional and rng.random() < 0.3:
                        c.extern = True
                        exported_consts[c.name] = c
                for lab in plan["labels"]:
                    if rng.random() < 0.3:
                        plan["extern_labels"].add(lab)
                        exported_labels.append((i, lab))
        # link base
        if rng.random() < self.p["link"]:
            k = rng.random()
            if k < 0.6:
                prog.base = rng.choice([0, 0o1000, 0o2000, 0o40000, 0o100000, 0o157776, rng.randrange(0, 0o160000, 2)])
            elif k < 0.8:
                prog.base = rng.randrange(1, 0o160000, 2)    # odd base
            else:
                prog.base = rng.randrange(0, 0o177000, 2)
        if rng.random() < self.p.get("many_files", 0.07):
            prog.many_files = rng.randint(8, 14)
            prog.features.add("many-files")
        prog.link_pos = None
        if prog.base is not None:
            prog.link_pos = rng.choice(["first", "first", "dot", "middle", "last"])
        for i, (gf, plan) in enumerate(zip(prog.mains, plans)):
            imported_c = {n: c for n, c in exported_consts.items() if c.file is not gf}
            imported_l = [lab for (j, lab) in exported_labels if j != i]
            if i == 0:
                base = prog.base if prog.base is not None else 0o1000
                parity = base % 2 == 0
                # address-dependent statements are cheap once the base is known up front
                budget = [rng.choice([3, 6, 9, 11])]
            parity = self._fill_file(prog, gf, plan, i, imported_c, imported_l, is_first=(i == 0), depth=0,
                                     even_in=parity, budget=budget, is_last_main=(i == n_main - 1))
            if gf.has_end:
                pass
        self._add_outputs(prog)
        # files cut short by '.end' make the expected count unreliable
        prog.dot_probes = None if any(f.has_end for f in prog.files) else self.dot_probes
        return prog

    # ---------------------------------------------------------------------------------
    def _plan_file(self, gf, idx):
        """Decide the constants (a DAG with generator-known values) and label names of a file."""
        rng = self.rng
        fg = FileGen(self, gf, idx, self.p)
        consts = []
        n = rng.randint(*self.p["n_consts"])
        for _ in range(n):
            cls = rng.choice(["reg", "rep", "small", "small", "align", "r50", "byte", "sbyte", "word", "word", "big"])
            name = fg.new_name("c")
            e = fg.expr(cls, allow_positional=False, want_symbolic=rng.random() < 0.6)
            if e.value is None:
                continue
            c = Const(name, e.value, e.text, e.deps, False, False, gf, cls, e.nonlinear)
            consts.append(c)
            fg.visible[name] = c
        if rng.random() < self.p["chain"]:
            depth = rng.choice([3, 5, 10, 30, 60, 120]) if rng.random() < 0.9 else rng.choice([200, 300])
            kind = rng.random()
            prev = None
            stem = fg.new_name("ch")
            chain = []
            nl = 0
            for j in range(depth):
                name = "%s_%d" % (stem, j)
                if prev is None:
                    v = rng.randint(0, 5)
                    c = Const(name, v, num(rng, v), set(), False, False, gf, "small", 0)
                else:
                    if kind < 0.7 or nl >= 28:
                        k = rng.randint(0, 2)
                        op = rng.choice("+-") if prev.value > 3 else "+"
                        v = prev.value + k if op == "+" else prev.value - k
                        text = "%s %s %s" % (prev.name, op, num(rng, k))
                        if rng.random() < 0.2:
                            text = "%s + %s" % (num(rng, k), prev.name) if op == "+" else text
                    else:
                        op = rng.choice(["*", "/", "%", "<<", ">>", "&", "|", "^"])
                        k = {"*": 1, "/": 1, "%": 1000, "<<": 0, ">>": 0, "&": 0xffff, "|": 0, "^": 0}[op]
                        v = _apply(op, prev.value, k)
                        text = "%s %s %s" % (prev.name, op, num(rng, k))
                        nl += 1
                    c = Const(name, v, text, {prev.name} | set(prev.deps), False, False, gf, "small", nl)
                chain.append(c)
                prev = c
            for c in chain:
                consts.append(c)
            fg.visible[chain[-1].name] = chain[-1]
            for c in chain[:-1]:
                if rng.random() < 0.1:
                    fg.visible[c.name] = c
        labels = []
        for _ in range(rng.randint(*self.p["n_labels"])):
            labels.append(fg.new_name("l"))
        return {"fg": fg, "consts": consts, "labels": labels, "extern_labels": set()}

    # ---------------------------------------------------------------------------------
    def _fill_file(self, prog, gf, plan, idx, imported_c, imported_l, is_first, depth, even_in=True, budget=None,
                   is_last_main=True):
        rng = self.rng
        fg = plan["fg"]
        fg.budget = budget if budget is not None else [5]
        # '. = X' is a forward skip only once the link base is known; before that it *sets* the base
        fg.skip_ok = depth == 0 and prog.link_pos in ("first", "dot")
        fg.label_names = list(plan["labels"])
        fg.imported_labels = list(imported_l)
        for n, c in imported_c.items():
            fg.visible[n] = c
        # initial parity
        fg.even = even_in
        body = []
        want_probe = rng.random() < self.p["probe"]
        if want_probe and rng.random() < 0.5:
            # forward-reference probe table: the same symbols as the table at the end of the file,
            # referenced before any of them is defined
            names = [c.name for c in plan["consts"]] + list(plan["labels"])
            if names:
                fg.need_even(body)
                hdr = "FPB%05d" % (self.marker_ctr % 100000)
                self.marker_ctr += 1
                gf.front_header = hdr.encode()
                body.append(Stmt('.ascii "%s"' % hdr, "probehdr"))
                for nm in names:
                    body.append(Stmt(".dword " + nm, "fprobe", {"name": nm}))
                    gf.front_order.append(nm)
        n = rng.randint(*self.p["n_stmts"])
        if depth > 0:
            n = max(2, n // 3)
        weights = [("code", self.p["w_code"]), ("data", self.p["w_data"]), ("branch", self.p["w_branch"]),
                   ("repeat", self.p["w_repeat"])]
        tot = sum(w for _, w in weights)
        label_slots = sorted(rng.randint(0, n) for _ in plan["labels"])
        li = 0
        for i in range(n):
            while li < len(label_slots) and label_slots[li] <= i:
                name = plan["labels"][li]
                fg.label_stmt(body, name, extern=name in plan["extern_labels"])
                li += 1
            x = rng.random() * tot
            for kind, w in weights:
                x -= w
                if x < 0:
                    break
            if kind == "code":
                fg.code_stmt(body)
            elif kind == "data":
                fg.data_stmt(body)
            elif kind == "branch":
                fg.branch_group(body)
            else:
                fg.repeat_stmt(body)
            if depth < 3 and prog.n_includes < 5 and rng.random() < self.p["include"] / max(4, n / 3):
                self._include(prog, gf, fg, body, idx, depth)
            if prog.many_files and depth == 0 and prog.n_includes < prog.many_files and rng.random() < 0.5:
                # "many files" programs: ten or more file instances, each include tiny
                saved = self.p
                self.p = dict(saved, n_stmts=(1, 4), n_consts=(0, 2), n_labels=(1, 2), include=0.0, insert=0.0, chain=0.0)
                try:
                    self._include(prog, gf, fg, body, idx, depth)
                finally:
                    self.p = saved
            if rng.random() < self.p["insert"] / max(4, n / 3):
                self._insert(prog, gf, fg, body)
        while li < len(plan["labels"]):
            name = plan["labels"][li]
            fg.label_stmt(body, name, extern=name in plan["extern_labels"])
            li += 1
        # constants derived from labels / '.' (position dependent, value unknown to the generator)
        if fg.label_names and rng.random() < 0.5:
            for _ in range(rng.randint(1, 2)):
                name = fg.new_name("p")
                a, b = rng.choice(fg.label_names), rng.choice(fg.label_names)
                text = rng.choice(["%s - %s" % (a, b), "%s + 2" % a, a, "<%s-%s>/2" % (a, b)])
                c = Const(name, None, text, set(), True, False, gf, "word", 1)
                plan["consts"].append(c)
        # probe table: .dword S for every ordinary symbol (before placing definitions)
        probes = []
        if want_probe:
            names = [c.name for c in plan["consts"]] + list(plan["labels"])
            if names:
                fg.need_even(body)
                hdr = "PRB%05d" % (self.marker_ctr % 100000)
                self.marker_ctr += 1
                gf.probe_header = hdr.encode()
                body.append(Stmt('.ascii "%s"' % hdr, "probehdr"))
                for nm in names:
                    body.append(Stmt(".dword " + nm, "probe", {"name": nm}))
                    gf.probe_order.append(nm)
        # how this file exports: '==' / '::' marks, an '.extern a, b' directive, or '.extern all'
        exported = [c.name for c in plan["consts"] if c.extern] + sorted(plan["extern_labels"])
        ext_style = "marks"
        if exported and depth == 0:
            ext_style = rng.choice(["marks", "marks", "directive", "all"])
        if ext_style != "marks":
            # labels were emitted with '::' above: rewrite them to plain ':'
            for st in body:
                if st.kind == "label" and st.info["name"] in plan["extern_labels"]:
                    st.text = st.text.replace(st.info["name"] + "::", st.info["name"] + ":", 1)
            names = ", ".join(exported) if ext_style == "directive" else rng.choice(["all", "ALL", "All"])
            body.insert(rng.randint(0, len(body)), Stmt(".extern " + names, "extern"))
            prog.features.add("extern-" + ext_style)
        # place constant definitions anywhere (forward and backward references arise naturally)
        for c in plan["consts"]:
            op = "==" if (c.extern and ext_style == "marks") else "="
            sp = rng.choice([" ", "", "  "])
            st = Stmt("%s%s%s%s%s" % (c.name, sp, op, sp, c.text), "const", {"name": c.name, "const": c})
            if c.deps and rng.random() < 0.4:
                # constants derived from other constants tend to stand near the top, as in real programs;
                # (a late delivery of what they depend on then leaves them all defined-but-pending)
                body.insert(rng.randint(0, max(1, len(body) // 3)), st)
            else:
                body.insert(rng.randint(0, len(body)), st)
            gf.consts[c.name] = c
            if c.extern:
                gf.externs.append(c.name)
        for lab in plan["extern_labels"]:
            gf.externs.append(lab)
        # link directive
        if is_first and depth == 0 and prog.base is not None:
            form = rng.choice([".link %s", ".link %s", ".LINK %s"])
            if prog.link_pos == "dot":
                form = rng.choice([". = %s", ".=%s"])
            st = Stmt(form % num(rng, prog.base), "link")
            if prog.link_pos != "dot" and rng.random() < 0.3:
                # the base itself is a symbolic expression, possibly defined later
                bname = fg.new_name("b")
                k = rng.randint(0, 8) * 2
                bc = Const(bname, prog.base - k, num(rng, prog.base - k) if prog.base - k >= 0 else "0 - " + num(rng, k - prog.base),
                           set(), False, False, gf, "word", 0)
                gf.consts[bname] = bc
                body.insert(rng.randint(0, len(body)), Stmt("%s = %s" % (bname, bc.text), "const", {"name": bname, "const": bc}))
                st = Stmt((form % ("%s + %s" % (bname, num(rng, k)))) if k else (form % bname), "link")
                prog.features.add("link-symbolic")
            if prog.link_pos in ("dot", "first"):
                body.insert(0, st)       # '. = X' sets the base only while the base is still unknown
            elif prog.link_pos == "middle":
                body.insert(rng.randint(0, len(body)), st)
            else:
                body.append(st)
            prog.features.add("link-" + prog.link_pos)
        if depth == 0 and fg.skip_ok and not is_last_main and fg.addr_dep_ok() and rng.random() < 0.3:
            # a linked file that ENDS with a location-counter skip (a buffer reserved at its end)
            e = fg.expr("small", allow_positional=False)
            body.append(Stmt(". = . + " + (e.text if e.atomic else angle(e.text)), "skip", {"deps": e.deps}))
            fg.budget[0] -= 1
            fg.flip(e.value)
            prog.features.add("trailing-skip")
        if depth > 0 and rng.random() < 0.3:
            body.insert(0, Stmt(".once", "once"))     # harmless for a file that is included once
        if depth == 0 and rng.random() < self.p["end"]:
            body.append(Stmt(".end", "end"))
            body.append(Stmt("this is junk after the end ,,,", "junk"))
            gf.has_end = True
        gf.stmts = body
        return fg.even

    def _include(self, prog, parent, fg, body, idx, depth):
        rng = self.rng
        self.file_ctr += 1
        pdir = os.path.dirname(parent.path)
        sub = rng.choice(["", "", "inc/", "../"])
        name = "%sinc%d_%d%s" % (sub, idx, self.file_ctr, rng.choice([".mac", ".inc", ""]))
        path = os.path.normpath(os.path.join(pdir, name))
        if not path.startswith(SIMROOT + "/"):
            return
        inc = GFile(path, "include")
        prog.files.append(inc)
        prog.n_includes += 1
        plan = self._plan_file(inc, 100 + self.file_ctr)
        # inside an include the start address is an unsettled promise: fresh small budget, shared downwards
        # address-dependent unsized statements are counted per program: once one of them (or any
        # statement whose size awaits a later symbol) is pending, each further one doubles pdpy11's
        # work (DESIGN 8.3), so the whole program shares one small budget
        sub_budget = fg.budget
        even_out = self._fill_file(prog, inc, plan, 100 + self.file_ctr, {}, [], False, depth + 1,
                                   even_in=fg.even, budget=sub_budget)
        spelled = name if rng.random() < 0.8 else path
        q = quote_for(rng, spelled)
        body.append(Stmt(".include %s%s%s" % (q, spelled, q), "include", {"path": path}))
        fg.even = even_out
        prog.features.add("include%d" % (depth + 1))

    def _insert(self, prog, parent, fg, body):
        rng = self.rng
        self.file_ctr += 1
        pdir = os.path.dirname(parent.path)
        name = "blob%d.%s" % (self.file_ctr, rng.choice(["bin", "dat", "raw"]))
        path = os.path.normpath(os.path.join(pdir, name))
        n = rng.choice([0, 1, 2, 3, 7, 16, rng.randint(0, 300)])
        prog.blobs[path] = bytes(rng.getrandbits(8) for _ in range(n))
        q = quote_for(rng, name)
        body.append(Stmt("insert_file %s%s%s" % (q, name, q), "insert", {"path": path, "size": n}))
        fg.flip(n)
        prog.features.add("insert")

    # ---------------------------------------------------------------------------------
    def _add_outputs(self, prog):
        """make_* directives (size 0, any position)."""
        rng = self.rng
        if rng.random() < 0.45:
            return
        for _ in range(rng.choice([1, 1, 2, 3])):
            gf = rng.choice(prog.files)
            kind = rng.choice(["make_bin", "make_raw", "make_wav", "make_turbo_wav", "make_bk0010_rom",
                               "make_bin", "make_raw"])
            path_arg = None
            tape = None
            if rng.random() < 0.6:
                stem = rng.choice(["out", "OUT", "res.ult", "game", "a b", "x"]) + str(rng.randint(0, 9))
                if rng.random() < 0.06:
                    stem = rng.choice(["~dump", "~tmp", "~dump x"])      # '~name' that is not a registered device
                ext = rng.choice([".bin", ".raw", ".wav", ".BIN", "", ".dat", ".WAV"])
                sub = rng.choice(["", "", "", "build/", "../", "nodir/"])
                path_arg = sub + stem + ext
                if not os.path.normpath(os.path.join(os.path.dirname(gf.path), path_arg)).startswith(SIMROOT + "/"):
                    path_arg = stem + ext       # never name a path outside the simulated root
                if rng.random() < 0.04:
                    path_arg = rng.choice(["~dump", "~tmp", "~dump x"])     # device-like name, ordinary file
                if rng.random() < 0.1:
                    path_arg = os.path.normpath(os.path.join(os.path.dirname(gf.path), path_arg))
            text = kind
            if path_arg is not None:
                q = quote_for(rng, path_arg)
                text += " %s%s%s" % (q, path_arg, q)
                if kind in ("make_wav", "make_turbo_wav") and rng.random() < 0.5:
                    tape = "".join(rng.choice("ABCDEFGHIJKLMNOPQRSTUVWXYZ0123456789 .") for _ in
                                   range(rng.choice([0, 1, 5, 15, 16, 16, rng.randint(0, 16)])))
                    text += ", %s%s%s" % (q, tape, q)
            pos = rng.randint(0, len(gf.stmts))
            if gf.has_end:
                pos = min(pos, len(gf.stmts) - 2)
            gf.stmts.insert(pos, Stmt(text, "make", {"kind": kind, "path_arg": path_arg, "tape": tape}))
            prog.features.add(kind)
