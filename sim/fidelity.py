"""Fidelity of the simulated world: a sample of fault-free CLI cases is repeated by a real
`python -m pdpy11` subprocess in a real temporary directory (outside /repo and /verif, removed at
once); exit status, files written (names and bytes) and stdout must equal the simulated run.
A mismatch is a harness error, not a property violation."""
import os
import random
import shutil
import subprocess
import sys
import tempfile

from . import boot, cliwork, drivers, procs, runner
from .world import SIMROOT


def materialise(op, root):
    pre = root + SIMROOT
    for d in op["dirs"]:
        os.makedirs(root + d, exist_ok=True)
    for p, b in op["files"].items():
        os.makedirs(os.path.dirname(root + p), exist_ok=True)
        data = b.replace(SIMROOT.encode() + b"/", pre.encode() + b"/")
        with open(root + p, "wb") as f:
            f.write(data)
    for p in op.get("readonly", ()):
        if os.path.exists(root + p):
            os.chmod(root + p, 0o444)
    argv = [a.replace(SIMROOT + "/", pre + "/") for a in op["argv"]]
    stdin = op.get("stdin")
    if stdin is not None:
        stdin = stdin.replace(SIMROOT + "/", pre + "/")
    return argv, stdin


def snapshot(root):
    out = {}
    for dp, _dn, fns in os.walk(root):
        for fn in fns:
            p = os.path.join(dp, fn)
            with open(p, "rb") as f:
                out[p[len(root):]] = f.read()
    return out


def main(tier):
    ns = boot.load()
    n = 40 if tier == "quick" else 400
    bad = 0
    done = 0
    seed = int(os.environ.get("VERIF_SEED", runner.DEFAULT_SEED))
    for i in range(n):
        rng = random.Random(runner.run_seed(seed, "fidelity", i))
        case = cliwork.make_cli_case(rng, {"n_stmts": (2, 14)})
        op = case["op"]
        # running as root defeats permission bits: skip read-only decoys in the comparison
        op = dict(op, readonly=[])
        sim = procs.fork_call(drivers.run_cli, ns, op, timeout=120)
        root = tempfile.mkdtemp(prefix="pdpy11-fid-")
        try:
            argv, stdin = materialise(op, root)
            before = snapshot(root)
            env = dict(os.environ, PYTHONPATH=boot.REPO, PYTHONDONTWRITEBYTECODE="1")
            p = subprocess.run([sys.executable, "-B", "-m", "pdpy11"] + argv, cwd=root + op["cwd"], env=env,
                               input=(stdin.encode() if stdin is not None else None),
                               stdout=subprocess.PIPE, stderr=subprocess.PIPE, timeout=120)
            after = snapshot(root)
        finally:
            shutil.rmtree(root, ignore_errors=True)
        pre = (root + SIMROOT).encode()
        real_changed = {}
        for path in set(before) | set(after):
            if before.get(path) != after.get(path):
                b = after.get(path)
                real_changed[path] = None if b is None else b.replace(pre + b"/", SIMROOT.encode() + b"/")
        sim_changed = dict(sim["changed"])
        # the materialised sources have longer absolute paths: a file overwritten with identical bytes in
        # the simulation may count as changed on the real disk and vice versa; compare final contents
        problems = []
        if p.returncode != sim["status"]:
            problems.append("exit %r (real) vs %r (simulated)" % (p.returncode, sim["status"]))
        if sorted(real_changed) != sorted(sim_changed):
            problems.append("files changed: real %s vs simulated %s" % (sorted(real_changed), sorted(sim_changed)))
        else:
            for path in real_changed:
                a, b = real_changed[path], sim_changed[path]
                if a != b and not path.endswith((".wav", ".WAV")):
                    problems.append("bytes of %s differ" % path)
        real_img = cliwork.strip_bare_diag_prefix(p.stdout)
        if real_img != cliwork.strip_bare_diag_prefix(sim["stdout"]) and not any(o["path"] == "-" and False for o in case["outs"]):
            problems.append("stdout image differs")
        done += 1
        if problems:
            bad += 1
            print("FIDELITY MISMATCH case %d argv=%s: %s" % (i, op["argv"], "; ".join(problems)))
    print("fidelity: %d cases compared with a real subprocess on a real disk, %d mismatches" % (done, bad))
    return 0 if bad == 0 else 2
