"""Delta debugging (ddmin) over flat lists; the predicate is re-evaluated in pristine children."""


def ddmin(items, test, max_probes=400):
    """Smallest sublist (1-minimal within the probe budget) of `items` for which test() is True.
    test(items) must be True for the full list."""
    items = list(items)
    probes = [0]

    def t(x):
        probes[0] += 1
        return test(x)

    n = 2
    while len(items) >= 2 and probes[0] < max_probes:
        chunk = max(1, len(items) // n)
        subsets = [items[i:i + chunk] for i in range(0, len(items), chunk)]
        reduced = False
        for i in range(len(subsets)):
            complement = [x for j, sub in enumerate(subsets) if j != i for x in sub]
            if complement and probes[0] < max_probes and t(complement):
                items = complement
                n = max(n - 1, 2)
                reduced = True
                break
        if not reduced:
            if n >= len(items):
                break
            n = min(len(items), n * 2)
    return items


def shrink_each(items, test, max_probes=200):
    """Try to drop items one at a time (cheap final pass / for short lists)."""
    items = list(items)
    probes = 0
    i = 0
    while i < len(items) and probes < max_probes:
        cand = items[:i] + items[i + 1:]
        probes += 1
        if test(cand):
            items = cand
        else:
            i += 1
    return items
