"""C02 trace monitor: records, hook-free, for every block instance the compiler takes up (top-level
files, included files, .repeat bodies) the triple (statement, address it was given, chunk it
produced) and, after an error-free run, checks the property's own invariant:

    address given to statement i  =  start of its block + sum of the sizes of the chunks before it
                                     (+ zero-filled '. = X' skips, only where such a statement stands)
    bytes of the block at that offset = the chunk;   image[address - base ...] = the chunk
    label value = address of the next byte;  files follow each other;  len(image) = sum of sizes

Seams: Compiler.compile_block / compile_insn / compile_word_list / compile_label / compile_include.
"""


class TraceMonitor:
    def __init__(self, ns):
        self.ns = ns
        self.blocks = []          # completed block records
        self.stack = []           # block records being compiled
        self.in_insn = 0
        self.top_files = []       # block records of the linked files, in order
        self.in_include = 0

    def __enter__(self):
        ns = self.ns
        mon = self
        C = ns.compiler.Compiler
        self._saved = (C.compile_block, C.compile_insn, C.compile_word_list, C.compile_label, C.compile_include)
        real_block, real_insn, real_words, real_label, real_include = self._saved
        BaseDeferred = ns.deferred.BaseDeferred

        def compile_block(cself, state, block, start):
            rec = {"context": state.get("context"), "filename": state.get("filename"), "start": start,
                   "entries": [], "insns": list(block.insns), "data": None, "done": False,
                   "included": mon.in_include > 0, "depth": len(mon.stack)}
            mon.stack.append(rec)
            saved_in_insn = mon.in_insn
            mon.in_insn = 0
            try:
                data = real_block(cself, state, block, start)
                rec["data"] = data
                rec["done"] = True
                mon.blocks.append(rec)
                if rec["context"] == "file" and not rec["included"] and rec["depth"] == 0:
                    mon.top_files.append(rec)
                return data
            finally:
                mon.in_insn = saved_in_insn
                mon.stack.pop()

        def compile_insn(cself, insn, state):
            rec = mon.stack[-1] if mon.stack else None
            direct = rec is not None and mon.in_insn == 0
            mon.in_insn += 1
            try:
                chunk = real_insn(cself, insn, state)
            finally:
                mon.in_insn -= 1
            if direct:
                rec["entries"].append(("insn", insn, state["emit_address"], chunk, isinstance(chunk, BaseDeferred)))
            return chunk

        def compile_word_list(cself, insn, insn_words, state):
            rec = mon.stack[-1] if mon.stack else None
            direct = rec is not None and mon.in_insn == 0
            chunk = real_words(cself, insn, insn_words, state)
            if direct:
                rec["entries"].append(("words", insn, state["emit_address"], chunk, isinstance(chunk, BaseDeferred)))
            return chunk

        def compile_label(cself, label, addr, state):
            rec = mon.stack[-1] if mon.stack else None
            if rec is not None and mon.in_insn == 0:
                rec["entries"].append(("label", label, addr, None, False))
            return real_label(cself, label, addr, state)

        def compile_include(cself, file, addr):
            mon.in_include += 1
            try:
                return real_include(cself, file, addr)
            finally:
                mon.in_include -= 1

        C.compile_block, C.compile_insn, C.compile_word_list = compile_block, compile_insn, compile_word_list
        C.compile_label, C.compile_include = compile_label, compile_include
        return self

    def __exit__(self, *exc):
        C = self.ns.compiler.Compiler
        (C.compile_block, C.compile_insn, C.compile_word_list, C.compile_label, C.compile_include) = self._saved
        return False

    # ------------------------------------------------------------------------------------------
    def report(self, result, status, world):
        """Post-run verification (only meaningful for an error-free successful run)."""
        out = {"blocks": len(self.blocks), "entries": 0, "deferred_size_entries": 0, "skips": 0, "labels": 0,
               "repeat_blocks": 0, "include_blocks": 0, "violations": [], "checked": False, "unforceable": 0}
        if status != "ok" or result is None:
            return out
        if any(sev in ("error", "critical") for (_s, sev, _i, _sp) in world.diags):
            return out
        ns = self.ns
        wait = ns.deferred.wait
        T = ns.types
        base, image = result[0], result[1]
        if not isinstance(image, (bytes, bytearray)):
            return out
        out["checked"] = True
        viol = out["violations"]
        sink = []

        def handler(priority, identifier, *reps):
            sink.append(identifier)

        def force(x):
            return wait(x)

        try:
            with ns.reports.handle_reports(handler):
                for rec in self.blocks:
                    self._check_block(rec, base, image, out, viol, force, T)
                # files follow each other, image = concatenation, length = sum of sizes
                pos = base
                total = b""
                for k, rec in enumerate(self.top_files):
                    st = force(rec["start"])
                    data = force(rec["data"])
                    if st != pos:
                        viol.append(("file-start", "linked file #%d (%s) starts at %o, expected %o" % (k, rec["filename"], st, pos)))
                    pos += len(data)
                    total += data
                if self.top_files:
                    if len(image) != pos - base:
                        viol.append(("image-length", "image length %d != sum of file sizes %d" % (len(image), pos - base)))
                    elif total != image:
                        viol.append(("image-content", "image is not the concatenation of the linked files' bytes"))
        except ns.reports.UnrecoverableError:
            pass
        if sink and any(True for _ in sink):
            out["post_run_reports"] = len(sink)
        out["violations"] = viol[:5]
        return out

    def _check_block(self, rec, base, image, out, viol, force, T):
        try:
            start = force(rec["start"])
            data = force(rec["data"])
        except Exception:
            out["unforceable"] += 1
            return
        if not isinstance(start, int) or not isinstance(data, (bytes, bytearray)):
            out["unforceable"] += 1
            return
        if rec["context"] == "repeat":
            out["repeat_blocks"] += 1
        elif rec["included"]:
            out["include_blocks"] += 1
        index_of = {}
        for k, i in enumerate(rec["insns"]):
            index_of.setdefault(id(i), k)
        where = "%s block of %s" % (rec["context"], rec["filename"])
        off = 0
        prev_idx = -1
        for (kind, tok, addr, chunk, was_deferred) in rec["entries"]:
            out["entries"] += 1
            if was_deferred:
                out["deferred_size_entries"] += 1
            try:
                a = force(addr)
                c = b"" if chunk is None else force(chunk)
            except Exception:
                out["unforceable"] += 1
                return
            if not isinstance(a, int) or not isinstance(c, (bytes, bytearray)):
                out["unforceable"] += 1
                return
            idx = index_of.get(id(tok), prev_idx + 1)
            if a != start + off:
                gap = a - (start + off)
                skip_between = any(isinstance(s, T.Assignment) and isinstance(s.target, T.InstructionPointer)
                                   for s in rec["insns"][prev_idx + 1: idx])
                if gap > 0 and skip_between and data[off:off + gap] == b"\x00" * gap and len(data) >= off + gap:
                    out["skips"] += 1
                    off += gap
                else:
                    viol.append(("address-mismatch",
                                 "%s: statement %r was given address %o but %d bytes precede it in its block that starts at %o (expected %o)"
                                 % (where, _text(tok), a, off, start, start + off)))
                    return
            if kind == "label":
                out["labels"] += 1
            else:
                n = len(c)
                if data[off:off + n] != c:
                    viol.append(("block-bytes-mismatch", "%s: bytes of the block at offset %d are not the %d bytes statement %r produced"
                                 % (where, off, n, _text(tok))))
                    return
                lo = a - base
                if not (0 <= lo and lo + n <= len(image)) or image[lo:lo + n] != c:
                    viol.append(("image-bytes-mismatch", "%s: the %d bytes at image address %o are not what statement %r (given that address) produced"
                                 % (where, n, a, _text(tok))))
                    return
                off += n
            prev_idx = idx
        # trailing skip(s) after the last traced statement
        if off != len(data):
            gap = len(data) - off
            trailing = any(isinstance(s, T.Assignment) and isinstance(s.target, T.InstructionPointer)
                           for s in rec["insns"][prev_idx + 1:])
            if not (gap > 0 and trailing and data[off:] == b"\x00" * gap):
                viol.append(("block-length", "%s: block holds %d bytes but its statements produced %d" % (where, len(data), off)))


def _text(tok):
    try:
        return tok.text()[:40]
    except Exception:
        return repr(tok)[:40]
