#!/bin/sh
# Offline setup: nothing to build. The checks import pdpy11 straight from /repo's working tree
# (python -B, no bytecode), so they always run the current sources. Verify the interpreter.
cd "$(dirname "$0")" || exit 1
PY=/venv/bin/python
[ -x "$PY" ] || PY=python3
"$PY" -B -c "import sys; sys.path.insert(0, '/repo'); import pdpy11; print('pdpy11 from', pdpy11.__file__, 'python', sys.version.split()[0])" || exit 1
mkdir -p evidence replays
exit 0
