#!/bin/sh
# usage: tools/try_seeded.sh <worktree-id e.g. c07-c> <PROPERTY e.g. C07>
# Confirms a seeded change (demo passes on /repo, fails on the patched worktree, pytest baseline holds)
# and runs the property's quick check against the patched tree (same code path as applying the patch to /repo).
id=$1; P=$2; wt=/tmp/wt/$id
cd $wt || exit 2
TREE=/repo timeout 300 bash demo/demo.sh >/dev/null 2>&1; echo "demo on original: exit $?"
TREE=$wt timeout 300 bash demo/demo.sh >/dev/null 2>&1; echo "demo on changed:  exit $?"
timeout 600 /venv/bin/python -m pytest -q -p no:cacheprovider --timeout=900 --continue-on-collection-errors 2>&1 | tail -1
git diff -- pdpy11 | diff -q - demo/patch.diff >/dev/null && echo "patch.diff matches working tree" || echo "WARNING patch.diff differs from working tree"
cd /verif && VERIF_REPO=$wt timeout 1800 ./check $P --tier quick 2>&1 | grep -v KNOWN | tail -3 | cut -c1-400
