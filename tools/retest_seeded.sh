#!/bin/sh
# usage: tools/retest_seeded.sh <seeded id> [<PROPERTY>] [extra ./check args]
# Applies seeded/<id>/patch.diff to a scratch worktree of /repo (outside /repo and /verif), runs the
# property's check against it and removes the worktree again.
id=$1; P=${2:-$(echo $id | cut -c1-3 | tr a-z A-Z)}; shift; shift 2>/dev/null
wt=$(mktemp -d /tmp/seeded-XXXXXX)/wt
git -C /repo worktree add -q --detach $wt HEAD || exit 2
git -C $wt apply /verif/seeded/$id/patch.diff || { echo "patch does not apply"; git -C /repo worktree remove --force $wt; exit 2; }
cd /verif && VERIF_REPO=$wt timeout 3000 ./check $P --tier quick "$@" 2>&1 | grep -v KNOWN | tail -3 | cut -c1-300
git -C /repo worktree remove --force $wt; rmdir $(dirname $wt) 2>/dev/null
git -C /repo worktree prune
